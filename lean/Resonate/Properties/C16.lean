/-
  Properties/C16.lean — store commands are conditional writes; batches are ordered and atomic.
  Stated over `SqlSpec.defs d` for BOTH dialects (`d` universally quantified); tied to /repo's SQL
  by Proofs/Tie.lean (regenerated on every run) and to the running sqlite store by `storediff`.
-/
import Resonate.Model.SqlSpec
import Resonate.Proofs.StoreBasics
namespace Resonate.C16
open Resonate SqlSpec

variable (d : Dialect)

/-! ### create only if absent -/

theorem createPromise_present (db : Db) (c : CreatePromiseCmd) (h : ∃ r ∈ db.promises, r.id = c.id) :
    db.exec (defs d) (.createPromise c) = .ok ({ db with seqP := db.seqP + 1 }, .rows 0) := by
  obtain ⟨r, hr, hid⟩ := h
  have : db.promises.any (fun r => r.id == c.id) = true := by
    simp only [List.any_eq_true]; exact ⟨r, hr, by simp [hid]⟩
  simp [Db.exec, Db.createPromise, this]

theorem createPromise_absent (db : Db) (c : CreatePromiseCmd) (h : ∀ r ∈ db.promises, r.id ≠ c.id) :
    db.exec (defs d) (.createPromise c) =
      .ok ({ db with promises := db.promises ++ [promiseInsert_row c (db.seqP + 1)], seqP := db.seqP + 1 }, .rows 1) := by
  have : db.promises.any (fun r => r.id == c.id) = false := by
    simp only [List.any_eq_false]; intro r hr; simpa using h r hr
  simp [Db.exec, Db.createPromise, this, defs]

/-- the inserted promise is pending and carries the request's fields verbatim -/
theorem createPromise_row (c : CreatePromiseCmd) (n : Nat) :
    let r := promiseInsert_row c n
    r.id = c.id ∧ r.state = 1 ∧ r.paramHeaders = c.param.headers ∧ r.paramData = c.param.data ∧ r.timeout = c.timeout ∧
    r.idempotencyKeyForCreate = c.idempotencyKey ∧ r.tags = c.tags ∧ r.createdOn = some c.createdOn ∧
    r.valueHeaders = none ∧ r.valueData = none ∧ r.idempotencyKeyForComplete = none ∧ r.completedOn = none ∧ r.sortId = n := by
  simp [promiseInsert_row]

/-! ### complete only if pending; reported rows = rows changed -/

/-- the complete effect of `UpdatePromise`, stated outright -/
theorem updatePromise_spec (db : Db) (c : UpdatePromiseCmd) (hs : promiseStateOk c.state = true) :
    db.exec (defs d) (.updatePromise c) =
      .ok ({ db with promises := db.promises.map fun r =>
                if r.id == c.id && r.state == 1 then
                  { r with state := c.state, valueHeaders := some c.value.headers, valueData := some c.value.data,
                           idempotencyKeyForComplete := c.idempotencyKey, completedOn := some c.completedOn }
                else r },
           .rows ((db.promises.filter fun r => r.id == c.id && r.state == 1).length)) := by
  unfold Db.exec
  simp only [hs, defs]
  unfold promiseUpdate_where promiseUpdate_set
  simp [updateWhere, countP]

/-- a row that is not a pending row with the addressed id is left untouched -/
theorem updatePromise_untouched (db db' : Db) (c : UpdatePromiseCmd) (res : Res)
    (h : db.exec (defs d) (.updatePromise c) = .ok (db', res)) (r : PromiseRow) (hr : r ∈ db.promises)
    (hn : ¬ (r.id = c.id ∧ r.state = 1)) : r ∈ db'.promises := by
  by_cases hs : promiseStateOk c.state = true
  · rw [updatePromise_spec d db c hs] at h
    injection h with h; injection h with h1 _
    subst h1
    simp only [List.mem_map]
    refine ⟨r, hr, ?_⟩
    have : (r.id == c.id && r.state == 1) = false := by
      cases h1 : (r.id == c.id && r.state == 1)
      · rfl
      · exact absurd (by simpa using h1) hn
    simp [this]
  · simp [Db.exec, hs] at h

/-! ### a callback is registered only on a pending promise and only once -/

theorem createCallback_spec (db : Db) (c : CreateCallbackCmd) :
    db.exec (defs d) (.createCallback c) =
      if (∃ p ∈ db.promises, p.id = c.promiseId ∧ p.state = 1) ∧ (∀ cb ∈ db.callbacks, cb.id ≠ c.id) then
        .ok ({ db with callbacks := db.callbacks ++ [callbackInsert_row c] }, .rows 1)
      else .ok (db, .rows 0) := by
  simp only [Db.exec, defs, callbackInsert_guard]
  by_cases h1 : ∃ p ∈ db.promises, p.id = c.promiseId ∧ p.state = 1
  · by_cases h2 : ∀ cb ∈ db.callbacks, cb.id ≠ c.id
    · have a1 : (db.promises.any fun r1 => r1.id == c.promiseId && r1.state == 1) = true := by
        obtain ⟨p, hp, h⟩ := h1; simp only [List.any_eq_true]; exact ⟨p, hp, by simp [h.1, h.2]⟩
      have a2 : (db.callbacks.any fun r1 => r1.id == c.id) = false := by
        simp only [List.any_eq_false]; intro r hr; simpa using h2 r hr
      rw [if_pos ⟨h1, h2⟩]; simp [a1, a2]
    · have a2 : (db.callbacks.any fun r1 => r1.id == c.id) = true := by
        have h2' := Classical.not_forall.mp h2
        obtain ⟨cb, h⟩ := h2'
        have h' := Classical.not_imp.mp h
        simp only [List.any_eq_true]; exact ⟨cb, h'.1, by simpa using h'.2⟩
      simp [a2, h2]
  · have a1 : (db.promises.any fun r1 => r1.id == c.promiseId && r1.state == 1) = false := by
      simp only [List.any_eq_false]; intro r hr hc
      exact h1 ⟨r, hr, by simpa using hc⟩
    simp [a1, h1]

theorem createCallback_row (c : CreateCallbackCmd) :
    callbackInsert_row c = { id := c.id, promiseId := c.promiseId, rootPromiseId := c.mesg.root, recv := c.recv,
                             mesg := c.mesg, timeout := c.timeout, createdOn := c.createdOn } := rfl

/-! ### a task is updated only if its state and counter match -/

theorem updateTask_spec (db : Db) (c : UpdateTaskCmd) (hs : c.currentStates ≠ []) :
    db.exec (defs d) (.updateTask c) =
      .ok ({ db with tasks := db.tasks.map fun r =>
                if r.id == c.id && r.state &&& maskOf c.currentStates != 0 && r.counter == c.currentCounter then
                  { r with processId := c.processId, state := c.state, counter := c.counter, attempt := c.attempt,
                           ttl := c.ttl, expiresAt := c.expiresAt, completedOn := c.completedOn }
                else r },
           .rows ((db.tasks.filter fun r => r.id == c.id && r.state &&& maskOf c.currentStates != 0 && r.counter == c.currentCounter).length)) := by
  have : c.currentStates.isEmpty = false := by cases h : c.currentStates <;> simp_all
  unfold Db.exec
  simp only [this, defs]
  unfold taskUpdate_where taskUpdate_set
  simp only [updateWhere, countP, Bool.not_eq_true, Bool.false_eq_true, ↓reduceIte]

/-! ### a lock is acquired only if free or held by the same execution -/

theorem acquireLock_free (db : Db) (c : AcquireLockCmd) (h : ∀ r ∈ db.locks, r.resourceId ≠ c.resourceId) :
    db.exec (defs d) (.acquireLock c) =
      .ok ({ db with locks := db.locks ++ [{ resourceId := c.resourceId, executionId := c.executionId,
                                             processId := c.processId, ttl := c.ttl, expiresAt := c.expiresAt }] }, .rows 1) := by
  have : (db.locks.any fun r => r.resourceId == c.resourceId) = false := by
    simp only [List.any_eq_false]; intro r hr; simpa using h r hr
  simp [Db.exec, defs, lockAcquire_row, this]

theorem acquireLock_held (db : Db) (c : AcquireLockCmd) (h : ∃ r ∈ db.locks, r.resourceId = c.resourceId) :
    db.exec (defs d) (.acquireLock c) =
      .ok ({ db with locks := db.locks.map fun r =>
                if r.resourceId == c.resourceId && r.executionId == c.executionId then
                  { r with processId := c.processId, ttl := c.ttl, expiresAt := c.expiresAt }
                else r },
           .rows ((db.locks.filter fun r => r.resourceId == c.resourceId && r.executionId == c.executionId).length)) := by
  have : (db.locks.any fun r => r.resourceId == c.resourceId) = true := by
    obtain ⟨r, hr, h⟩ := h; simp only [List.any_eq_true]; exact ⟨r, hr, by simp [h]⟩
  unfold Db.exec
  simp only [defs, lockAcquire_row, this]
  unfold lockAcquire_conflictWhere lockAcquire_conflictSet
  simp only [updateWhere, countP, Bool.false_eq_true, ↓reduceIte]

/-- hence: an acquire by a different execution leaves an existing lock row exactly as it was -/
theorem acquireLock_other_execution (db db' : Db) (c : AcquireLockCmd) (res : Res) (r : LockRow)
    (hr : r ∈ db.locks) (hres : r.resourceId = c.resourceId) (hex : r.executionId ≠ c.executionId)
    (h : db.exec (defs d) (.acquireLock c) = .ok (db', res)) : r ∈ db'.locks := by
  rw [acquireLock_held d db c ⟨r, hr, hres⟩] at h
  injection h with h; injection h with h1 _
  subst h1
  simp only [List.mem_map]
  refine ⟨r, hr, ?_⟩
  have : (r.executionId == c.executionId) = false := by simpa using hex
  simp [this]

/-! ### transactions are applied in submission order; batches are all-or-nothing -/

theorem execTx_nil (db : Db) : db.execTx (defs d) [] = .ok (db, []) := rfl

theorem execTx_cons (db : Db) (c : Cmd) (cs : List Cmd) :
    db.execTx (defs d) (c :: cs) =
      match db.exec (defs d) c with
      | .error e => .error e
      | .ok (db1, r) => match db1.execTx (defs d) cs with
        | .error e => .error e
        | .ok (db2, rs) => .ok (db2, r :: rs) := rfl

/-- one result per command -/
theorem execTx_results_length (g : SqlDefs) (db db' : Db) (cs : List Cmd) (rs : List Res)
    (h : db.execTx g cs = .ok (db', rs)) : rs.length = cs.length := by
  induction cs generalizing db rs with
  | nil => simp [Db.execTx] at h; simp [h.2.symm]
  | cons c cs ih =>
    simp only [Db.execTx] at h
    cases h1 : db.exec g c with
    | error e => simp [h1] at h
    | ok p =>
      obtain ⟨db1, r⟩ := p
      simp only [h1] at h
      cases h2 : db1.execTx g cs with
      | error e => simp [h2] at h
      | ok q =>
        obtain ⟨db2, rs2⟩ := q
        simp only [h2] at h
        injection h with h; injection h with hd h
        subst h; subst hd
        simp [ih db1 rs2 h2]

/-- one result list per submission, in submission order (`results[i]` belongs to submission `i`) -/
theorem execTxs_results_length (g : SqlDefs) (db db' : Db) (txs : List (List Cmd)) (rss : List (List Res))
    (h : db.execTxs g txs = .ok (db', rss)) :
    rss.length = txs.length ∧ ∀ i (hi : i < rss.length) (hj : i < txs.length), (rss[i]).length = (txs[i]).length := by
  induction txs generalizing db rss with
  | nil => simp [Db.execTxs] at h; simp [h.2.symm]
  | cons tx txs ih =>
    simp only [Db.execTxs] at h
    split at h
    · cases h
    · cases h1 : db.execTx g tx with
      | error e => simp [h1] at h
      | ok p =>
        obtain ⟨db1, rs⟩ := p
        simp only [h1] at h
        cases h2 : db1.execTxs g txs with
        | error e => simp [h2] at h
        | ok q =>
          obtain ⟨db2, rss2⟩ := q
          simp only [h2] at h
          injection h with h; injection h with hd h
          subst h; subst hd
          obtain ⟨hl, hall⟩ := ih db1 rss2 h2
          refine ⟨by simp [hl], ?_⟩
          intro i hi hj
          cases i with
          | zero => simpa using execTx_results_length g db db1 tx rs h1
          | succ i => simpa using hall i (by simpa using hi) (by simpa using hj)

/-- a failing command at ANY position of ANY transaction of the batch leaves the database unchanged
    and every submission gets the error -/
theorem execBatch_error_atomic (g : SqlDefs) (db : Db) (txs : List (List Cmd)) (e : StoreErr)
    (h : (db.execBatch g txs).2 = .error e) : (db.execBatch g txs).1 = db := by
  unfold Db.execBatch at *
  split at h
  · cases h
  · rfl

theorem execBatch_ok (g : SqlDefs) (db db' : Db) (txs : List (List Cmd)) (rss : List (List Res))
    (h : db.execTxs g txs = .ok (db', rss)) : db.execBatch g txs = (db', .ok rss) := by
  simp [Db.execBatch, h]

/-- the batch is the sequential composition of its transactions: splitting a batch in two
    successful halves gives the same final state and results -/
theorem execTxs_append (g : SqlDefs) (db : Db) (a b : List (List Cmd)) :
    db.execTxs g (a ++ b) =
      match db.execTxs g a with
      | .error e => .error e
      | .ok (db1, ra) => match db1.execTxs g b with
        | .error e => .error e
        | .ok (db2, rb) => .ok (db2, ra ++ rb) := by
  induction a generalizing db with
  | nil =>
    simp only [List.nil_append, Db.execTxs]
    cases h : db.execTxs g b with
    | error e => rfl
    | ok p => obtain ⟨db2, rb⟩ := p; simp
  | cons tx a ih =>
    simp only [List.cons_append, Db.execTxs]
    split
    · rfl
    · cases h1 : db.execTx g tx with
      | error e => rfl
      | ok p =>
        obtain ⟨db1, rs⟩ := p
        simp only [ih db1]
        cases h2 : db1.execTxs g a with
        | error e => rfl
        | ok q =>
          obtain ⟨db2, ra⟩ := q
          simp only
          cases h3 : db2.execTxs g b with
          | error e => rfl
          | ok q3 => obtain ⟨db3, rb⟩ := q3; simp

/-! ### non-vacuity -/

def exRow : PromiseRow := { id := "a", sortId := 1, state := 1, paramHeaders := [], paramData := "", valueHeaders := none, valueData := none, timeout := 10, idempotencyKeyForCreate := none, idempotencyKeyForComplete := none, tags := [], createdOn := some 0, completedOn := none }
def exDb : Db := { promises := [exRow], seqP := 1 }

example : ∃ r ∈ exDb.promises, r.id = "a" := ⟨_, List.mem_cons_self, rfl⟩
example : (exDb.exec (defs .sqlite) (.updatePromise { id := "a", state := 2, value := {}, idempotencyKey := none, completedOn := 5 })).toOption.map (·.2)
    = some (.rows 1) := by decide
example : (exDb.execBatch (defs .sqlite) [[.createPromise { id := "b", param := {}, timeout := 1, idempotencyKey := none, tags := [], createdOn := 0 }],
      [.updatePromise { id := "a", state := 3, value := {}, idempotencyKey := none, completedOn := 5 }]]).1 = exDb := by decide

end Resonate.C16
