/-
  Properties/C15.lean — both front ends render every kernel status; outcome flags agree with the
  kernel.  All statements are over the tables translate/gofacts extracts from /repo on every run
  (Generated/Status.lean); the quantifier is the finite universe of `StatusCode` constants, so `decide`
  over the whole table is a proof.
-/
import Resonate.Generated.Status
import Resonate.Model.Coroutines
namespace Resonate.C15
open Resonate Gen

/-- the status constants the model uses are the code's constants -/
theorem model_statuses : allStatuses = [
    ("StatusOK", S_OK), ("StatusCreated", S_CREATED), ("StatusNoContent", S_NOCONTENT),
    ("StatusFieldValidationError", S_FIELD_VALIDATION), ("StatusCallbackInvalidPromise", S_CALLBACK_INVALID_PROMISE),
    ("StatusPromiseAlreadyResolved", S_PROMISE_ALREADY_RESOLVED), ("StatusPromiseAlreadyRejected", S_PROMISE_ALREADY_REJECTED),
    ("StatusPromiseAlreadyCanceled", S_PROMISE_ALREADY_CANCELED), ("StatusPromiseAlreadyTimedout", S_PROMISE_ALREADY_TIMEDOUT),
    ("StatusLockAlreadyAcquired", S_LOCK_ALREADY_ACQUIRED), ("StatusTaskAlreadyClaimed", S_TASK_ALREADY_CLAIMED),
    ("StatusTaskAlreadyCompleted", S_TASK_ALREADY_COMPLETED), ("StatusTaskInvalidCounter", S_TASK_INVALID_COUNTER),
    ("StatusTaskInvalidState", S_TASK_INVALID_STATE), ("StatusPromiseNotFound", S_PROMISE_NOT_FOUND),
    ("StatusScheduleNotFound", S_SCHEDULE_NOT_FOUND), ("StatusLockNotFound", S_LOCK_NOT_FOUND), ("StatusTaskNotFound", S_TASK_NOT_FOUND),
    ("StatusPromiseRecvNotFound", S_PROMISE_RECV_NOT_FOUND), ("StatusPromiseAlreadyExists", S_PROMISE_ALREADY_EXISTS),
    ("StatusScheduleAlreadyExists", S_SCHEDULE_ALREADY_EXISTS), ("StatusInternalServerError", S_INTERNAL), ("StatusAIOEchoError", S_AIO_ECHO),
    ("StatusAIOMatchError", S_AIO_MATCH), ("StatusAIOQueueError", S_AIO_QUEUE), ("StatusAIOStoreError", S_AIO_STORE),
    ("StatusSystemShuttingDown", S_SHUTTING_DOWN), ("StatusAPISubmissionQueueFull", S_API_QUEUE_FULL),
    ("StatusAIOSubmissionQueueFull", S_AIO_QUEUE_FULL), ("StatusSchedulerQueueFull", S_SCHEDULER_QUEUE_FULL)] := by decide

/-- **gRPC never panics on a status**: every status constant has a case in `code()` -/
theorem grpc_code_total : ∀ s ∈ allStatuses, (grpcCode.lookup s.1).isSome = true := by decide

/-- **error rendering never panics**: every status constant has a case in `StatusCode.String()` -/
theorem status_string_total : ∀ s ∈ allStatuses, s.1 ∈ stringCases := by decide

/-- gRPC answers OK exactly for the successful statuses (2xxxx) -/
theorem grpc_ok_iff_successful : ∀ s ∈ allStatuses, (grpcCode.lookup s.1 == some "OK") = (decide (20000 ≤ s.2) && decide (s.2 < 30000)) := by decide

/-- error classes map to the matching gRPC code family -/
theorem grpc_code_families : ∀ s ∈ allStatuses,
    (s.2 / 100 = 400 → grpcCode.lookup s.1 = some "InvalidArgument") ∧
    (s.2 / 100 = 403 → grpcCode.lookup s.1 = some "PermissionDenied") ∧
    (s.2 / 100 = 404 → grpcCode.lookup s.1 = some "NotFound") ∧
    (s.2 / 100 = 409 → grpcCode.lookup s.1 = some "AlreadyExists") ∧
    (s.2 / 100 = 500 → grpcCode.lookup s.1 = some "Internal") ∧
    (s.2 / 100 = 503 → grpcCode.lookup s.1 = some "Unavailable") := by decide

/-- **HTTP**: the reply code is the kernel status divided by 100, and it is always one of the nine
    HTTP codes the API documents -/
theorem http_divisor : httpDivisor = 100 := by decide
theorem http_codes : ∀ s ∈ allStatuses, s.2 / httpDivisor ∈ [200, 201, 204, 400, 403, 404, 409, 500, 503] := by decide

/-- the success status the kernel answers for each operation that has a gRPC outcome flag
    (what the model coroutines return; see the `_returns` theorems below) -/
def kernelSuccess : String → Nat
  | "Acquired" => S_CREATED
  | "Released" => S_NOCONTENT
  | "Claimed" => S_CREATED
  | "Completed" => S_CREATED
  | _ => S_OK            -- `Noop`: the operation found its work already done

/-- **outcome flags agree with the kernel**: every flag is computed by comparing the kernel status with
    exactly the status the kernel returns for that outcome -/
theorem flags_agree : ∀ f ∈ grpcFlags, allStatuses.lookup f.2.2 = some (kernelSuccess f.2.1) := by decide

/-- every operation with an outcome has its flag -/
theorem flags_present : grpcFlags.map (fun f => (f.1, f.2.1)) =
    [("CreateCallback", "Noop"), ("AcquireLock", "Acquired"), ("ReleaseLock", "Released"), ("CreatePromise", "Noop"),
     ("CreatePromiseAndTask", "Noop"), ("ResolvePromise", "Noop"), ("RejectPromise", "Noop"), ("CancelPromise", "Noop"),
     ("CreateSubscription", "Noop"), ("ClaimTask", "Claimed"), ("CompleteTask", "Completed")] := by decide

/-! the kernel side of the flags: what the (model) coroutines answer on success -/

theorem release_returns (res e : String) (t0 t : Time) :
    ∃ k, Coro.releaseLock res e t0 = .yield [.store [.releaseLock ⟨res, e⟩]] k ∧ k t [.store [.rows 1]] = .done (some (.status S_NOCONTENT)) := ⟨_, rfl, rfl⟩

theorem acquire_returns (req : AcquireLockReq) (t0 t : Time) :
    ∃ subs k l, Coro.acquireLock req t0 = .yield subs k ∧ k t [.store [.rows 1]] = .done (some (.lock S_CREATED (some l))) := ⟨_, _, _, rfl, rfl⟩

theorem heartbeat_counts (p : String) (t0 t : Time) (n : Nat) :
    ∃ subs k, Coro.heartbeatTasks p t0 = .yield subs k ∧ k t [.store [.rows n]] = .done (some (.count S_OK n)) := ⟨_, _, rfl, rfl⟩

/-! ### non-vacuity: the universe is the 30 constants of status.go -/
example : allStatuses.length = 30 ∧ ("StatusCallbackInvalidPromise", 40001) ∈ allStatuses := by decide

end Resonate.C15
