/-
  Properties/C05.lean — no lost wake-ups: registrations become tasks atomically with completion.
-/
import Resonate.Proofs.CbInv
import Resonate.Proofs.SysInv
import Resonate.Proofs.SysDb
import Resonate.Properties.C08
namespace Resonate.C05
open Resonate SqlSpec

/-- `TASK_INSERT_ALL` on success: one new task per selected callback, appended, nothing else touched -/
theorem insertTasksFrom_ok (g : SqlDefs) (c : CreateTasksCmd) :
    ∀ (cbs : List CallbackRow) (tasks : List TaskRow) (seq : Nat) (ts : List TaskRow) (s n : Nat),
      insertTasksFrom g c cbs tasks seq = .ok (ts, s, n) →
      n = cbs.length ∧ ∃ rows, ts = tasks ++ rows ∧ Forall2 (fun cb row => ∃ k, row = g.taskInsertAll_row c cb k) cbs rows := by
  intro cbs
  induction cbs with
  | nil => intro tasks seq ts s n h; simp [insertTasksFrom] at h; exact ⟨h.2.2.symm, [], by simp [h.1], .nil⟩
  | cons cb rest ih =>
    intro tasks seq ts s n h
    simp only [insertTasksFrom] at h
    split at h
    · cases h
    · cases h2 : insertTasksFrom g c rest (tasks ++ [g.taskInsertAll_row c cb (seq + 1)]) (seq + 1) with
      | error e => simp [h2] at h
      | ok p =>
        obtain ⟨ts2, s2, n2⟩ := p
        simp only [h2, Except.ok.injEq, Prod.mk.injEq] at h
        obtain ⟨h1, h3, h4⟩ := h
        subst h1; subst h3; subst h4
        obtain ⟨hn, rows, hts, hf⟩ := ih _ _ _ _ _ h2
        exact ⟨by simp [hn], _ :: rows, by simp [hts], .cons ⟨seq + 1, rfl⟩ hf⟩

variable (d : Dialect)

/-- **Conversion.** Executing the completion block for `id` on ANY database: on success, exactly the
    registrations on `id` are removed, each of them has become a task carrying its id, receiver, message,
    timeout and root (state init, counter 1), no other registration is touched, and the number of tasks
    created equals the number of registrations deleted. -/
theorem conversion (db db' : Db) (c : UpdatePromiseCmd) (t1 t2 : Int) (rs : List Res)
    (h : db.execTx (defs d) [.updatePromise c, .completeTasks ⟨c.id, t1⟩, .createTasks ⟨c.id, t2⟩, .deleteCallbacks ⟨c.id⟩] = .ok (db', rs)) :
    db'.callbacks = db.callbacks.filter (fun cb => cb.promiseId != c.id) ∧
    (∀ cb ∈ db.callbacks, cb.promiseId = c.id → ∃ task ∈ db'.tasks, task.id = cb.id ∧ task.recv = cb.recv ∧ task.mesg = cb.mesg ∧
        task.timeout = cb.timeout ∧ task.rootPromiseId = cb.rootPromiseId ∧ task.state = 1 ∧ task.counter = 1 ∧ task.createdOn = some t2) ∧
    (∃ n0 n1 k, rs = [.rows n0, .rows n1, .rows k, .rows k] ∧ k = (db.callbacks.filter (fun cb => cb.promiseId == c.id)).length) := by
  obtain ⟨db1, r1, rs1, e1, x1, hr1⟩ := execTx_cons_ok _ _ _ _ _ _ h
  obtain ⟨db2, r2, rs2, e2, x2, hr2⟩ := execTx_cons_ok _ _ _ _ _ _ x1
  obtain ⟨db3, r3, rs3, e3, x3, hr3⟩ := execTx_cons_ok _ _ _ _ _ _ x2
  obtain ⟨db4, r4, rs4, e4, x4, hr4⟩ := execTx_cons_ok _ _ _ _ _ _ x3
  simp [Db.execTx] at x4
  obtain ⟨hdb, hrs4⟩ := x4
  subst hdb; subst hrs4
  have f1 := exec_frame _ _ _ _ _ e1
  have f2 := exec_frame _ _ _ _ _ e2
  have f3 := exec_frame _ _ _ _ _ e3
  have c1 : db1.callbacks = db.callbacks := f1.2.1 rfl
  have c2 : db2.callbacks = db1.callbacks := f2.2.1 rfl
  have c3 : db3.callbacks = db2.callbacks := f3.2.1 rfl
  -- createTasks
  simp only [Db.exec] at e3
  cases hins : insertTasksFrom (defs d) ⟨c.id, t2⟩ ((db2.callbacks.filter ((defs d).taskInsertAll_where ⟨c.id, t2⟩)).mergeSort cbOrdLe) db2.tasks db2.seqT with
  | error e => simp [hins] at e3
  | ok p =>
    obtain ⟨ts, s, n⟩ := p
    simp only [hins] at e3
    injection e3 with e3; injection e3 with hdb3 hres3
    obtain ⟨hn, rows, hts, hf⟩ := insertTasksFrom_ok _ _ _ _ _ _ _ _ hins
    -- deleteCallbacks
    simp only [Db.exec] at e4
    injection e4 with e4; injection e4 with hdb4 hres4
    have t4 : db4.tasks = ts := by rw [← hdb4, ← hdb3]
    have cb4 : db4.callbacks = db.callbacks.filter (fun cb => cb.promiseId != c.id) := by
      rw [← hdb4]
      simp only [defs, callbackDelete_where]
      rw [c3, c2, c1]
      congr 1
    refine ⟨cb4, ?_, ?_⟩
    · intro cb hcb hid
      have hsel : cb ∈ (db2.callbacks.filter ((defs d).taskInsertAll_where ⟨c.id, t2⟩)).mergeSort cbOrdLe := by
        rw [List.mem_mergeSort, List.mem_filter, c2, c1]
        exact ⟨hcb, by simp [defs, taskInsertAll_where, hid]⟩
      obtain ⟨idx, hidx⟩ := List.getElem?_of_mem hsel
      obtain ⟨row, hrow, k, hk⟩ := forall2_get hf idx cb hidx
      refine ⟨row, ?_, ?_⟩
      · rw [t4, hts]; exact List.mem_append_right _ (List.mem_of_getElem? hrow)
      · subst hk; simp [defs, taskInsertAll_row]
    · simp only [Db.exec] at e1 e2
      split at e1
      · cases e1
      · injection e1 with e1; injection e1 with _ hres1
        injection e2 with e2; injection e2 with _ hres2
        refine ⟨countP ((defs d).promiseUpdate_where c) db.promises, countP ((defs d).taskCompleteByRootId_where ⟨c.id, t1⟩) db1.tasks, n, ?_, ?_⟩
        · rw [hr1, hr2, hr3, hr4, ← hres1, ← hres2, ← hres3, ← hres4]
          congr 3
          -- deleted = callbacks on the id = selected for insertion
          rw [hn, List.length_mergeSort, ← hdb3]
          simp only [countP, defs]
          unfold callbackDelete_where taskInsertAll_where
          rfl
        · rw [hn, List.length_mergeSort, c2, c1]
          simp only [defs]
          unfold taskInsertAll_where
          rfl

/-- `TASK_INSERT_ALL` has no conflict clause: when a selected registration has the id of an existing task the statement fails -/
theorem insert_collision_fails (c : CreateTasksCmd) :
    ∀ (cbs : List CallbackRow) (tasks : List TaskRow) (seq : Nat),
      (∃ cb ∈ cbs, ∃ t ∈ tasks, t.id = cb.id) → ∃ e, insertTasksFrom (defs d) c cbs tasks seq = .error e := by
  intro cbs
  induction cbs with
  | nil => intro tasks seq h; obtain ⟨cb, hcb, _⟩ := h; cases hcb
  | cons x rest ih =>
    intro tasks seq h
    simp only [insertTasksFrom]
    split
    · exact ⟨_, rfl⟩
    · rename_i hany
      obtain ⟨cb, hcb, t, ht, hid⟩ := h
      have hrest : cb ∈ rest := by
        rcases List.mem_cons.mp hcb with rfl | hr
        · exfalso
          apply hany
          rw [List.any_eq_true]
          exact ⟨t, ht, by simp [defs, taskInsertAll_row, hid]⟩
        · exact hr
      obtain ⟨e, he⟩ := ih (tasks ++ [(defs d).taskInsertAll_row c x (seq + 1)]) (seq + 1) ⟨cb, hrest, t, List.mem_append_left _ ht, hid⟩
      rw [he]
      exact ⟨e, rfl⟩

/-- **Finding F2 as a theorem about the model** (known finding of C11; the ids that collide are exhibited by
    `callbackId_not_injective` below).  When a registration on the promise has the id of a task that exists already, the
    completion block NEVER commits — whatever the completion, by whichever path (request, lazy time-out, sweep): the
    promise cannot leave pending, and (all or nothing) no registration is dropped either. -/
theorem colliding_completion_never_commits_F2 (db db' : Db) (c : UpdatePromiseCmd) (t1 t2 : Int) (rs : List Res)
    (cb : CallbackRow) (hcb : cb ∈ db.callbacks) (hp : cb.promiseId = c.id) (t : TaskRow) (ht : t ∈ db.tasks) (hid : t.id = cb.id) :
    db.execTx (defs d) [.updatePromise c, .completeTasks ⟨c.id, t1⟩, .createTasks ⟨c.id, t2⟩, .deleteCallbacks ⟨c.id⟩] ≠ .ok (db', rs) := by
  intro h
  obtain ⟨db1, r1, rs1, e1, x1, _⟩ := execTx_cons_ok _ _ _ _ _ _ h
  obtain ⟨db2, r2, rs2, e2, x2, _⟩ := execTx_cons_ok _ _ _ _ _ _ x1
  obtain ⟨db3, r3, rs3, e3, _, _⟩ := execTx_cons_ok _ _ _ _ _ _ x2
  have f1 := exec_frame _ _ _ _ _ e1
  have f2 := exec_frame _ _ _ _ _ e2
  have c1 : db1.callbacks = db.callbacks := f1.2.1 rfl
  have c2 : db2.callbacks = db1.callbacks := f2.2.1 rfl
  have t1' : db1.tasks = db.tasks := (f1.2.2.2.2 rfl).1
  -- completing the promise's own tasks keeps every task id
  have t2' : ∃ u ∈ db2.tasks, u.id = cb.id := by
    simp only [Db.exec] at e2
    injection e2 with e2; injection e2 with hdb2 _
    rw [← hdb2]
    simp only
    rw [t1']
    by_cases hw : (defs d).taskCompleteByRootId_where ⟨c.id, t1⟩ t = true
    · exact ⟨(defs d).taskCompleteByRootId_set ⟨c.id, t1⟩ t, (mem_updateWhere _ _ _ _).mpr ⟨t, ht, .inl ⟨hw, rfl⟩⟩,
        by simp [defs, taskCompleteByRootId_set, hid]⟩
    · have hw' : (defs d).taskCompleteByRootId_where ⟨c.id, t1⟩ t = false := by simpa using hw
      exact ⟨t, (mem_updateWhere _ _ _ _).mpr ⟨t, ht, .inr ⟨hw', rfl⟩⟩, hid⟩
  obtain ⟨u, hu, huid⟩ := t2'
  simp only [Db.exec] at e3
  have hsel : cb ∈ (db2.callbacks.filter ((defs d).taskInsertAll_where ⟨c.id, t2⟩)).mergeSort cbOrdLe := by
    rw [List.mem_mergeSort, List.mem_filter, c2, c1]
    exact ⟨hcb, by simp [defs, taskInsertAll_where, hp]⟩
  obtain ⟨e, he⟩ := insert_collision_fails d ⟨c.id, t2⟩ _ db2.tasks db2.seqT ⟨cb, hsel, u, hu, huid⟩
  rw [he] at e3
  cases e3

/-- **Finding F20 (known) as a theorem about the model.**  The completion block is written unconditionally.  When a second
    block for the same promise is executed after a first one (two requests, or a request and the sweep, had both read the
    promise while it was pending), every registration whose task has the completed promise as its root — every SUBSCRIPTION:
    the root of a notification is the awaited promise — ends up as a task in state COMPLETED: the first block creates it
    (`conversion`: state init), the second block's promise update changes no row but its `CompleteTasks`, by root promise id,
    finishes it (`C08.finished_together`).  The subscriber is never notified.  For every database, both dialects. -/
theorem second_block_finishes_notifications_F20 (db db1 db2 : Db) (c c2 : UpdatePromiseCmd) (hc : c2.id = c.id) (t1 t2 t1' t2' : Int)
    (rs rs2 : List Res)
    (h1 : db.execTx (defs d) [.updatePromise c, .completeTasks ⟨c.id, t1⟩, .createTasks ⟨c.id, t2⟩, .deleteCallbacks ⟨c.id⟩] = .ok (db1, rs))
    (h2 : db1.execTx (defs d) [.updatePromise c2, .completeTasks ⟨c2.id, t1'⟩, .createTasks ⟨c2.id, t2'⟩, .deleteCallbacks ⟨c2.id⟩] = .ok (db2, rs2)) :
    ∀ cb ∈ db.callbacks, cb.promiseId = c.id → cb.rootPromiseId = c.id →
      ∃ task ∈ db2.tasks, task.id = cb.id ∧ task.state = 8 ∧ task.completedOn = some t1' := by
  intro cb hcb hp hroot
  obtain ⟨_, hconv, _⟩ := conversion d db db1 c t1 t2 rs h1
  obtain ⟨task, hmem, hid, _, _, _, hr, hst, _, _⟩ := hconv cb hcb hp
  obtain ⟨i, hi⟩ := List.getElem?_of_mem hmem
  have := C08.finished_together d db1 db2 c2 t1' t2' rs2 h2 i task hi (by rw [hr, hroot, hc]) (.inl hst)
  exact ⟨_, List.mem_of_getElem? this, hid, rfl, rfl⟩

/-- **Invariant, every reachable state.** From an empty database, along ANY run — every interleaving of
    registrations with every completion path (explicit, lazy time-out, sweep), both orders inside one
    batch, every failure, every crash point — every stored registration awaits a promise that exists and
    is pending: no registration outlives its promise. -/
theorem no_registration_outlives_its_promise (env : Env) (cs : List Choice) (hcs : ∀ c ∈ cs, c.Ok) :
    CbInv ((Sys.boot env d (defs d)).run cs).db := by
  have hboot : SysInv CbInv (Sys.boot env d (defs d)) :=
    ⟨by intro cb hcb; simp [Sys.boot] at hcb, by intro x hx; simp [Sys.boot] at hx, by intro th hth; simp [Sys.boot] at hth,
     by intro q hq; simp [Sys.boot] at hq⟩
  exact (sysInv_run CbInv cs _ hboot hcs (fun db db' tx rs hi hw hx => cbInv_wfCore d tx db db' rs hi hw.1 hx)).db

/-- **Registration is guarded.** `CreateCallback` inserts only when the awaited promise is pending and no
    registration with that id exists; otherwise nothing changes and 0 rows are reported — hence
    re-registering the same (awaiting, awaited) pair or subscription id can never yield a second row, and
    (by `conversion`) never a second task. -/
theorem registration_once (db db' : Db) (c : CreateCallbackCmd) (n : Nat)
    (h : db.exec (defs d) (.createCallback c) = .ok (db', .rows n)) (hdup : ∃ cb ∈ db.callbacks, cb.id = c.id) :
    db' = db ∧ n = 0 := by
  simp only [Db.exec] at h
  have : (defs d).callbackInsert_guard c db = false := by
    obtain ⟨cb, hcb, hid⟩ := hdup
    simp only [defs, callbackInsert_guard, Bool.and_eq_false_iff, Bool.not_eq_false', List.any_eq_true, beq_iff_eq]
    right; exact ⟨cb, hcb, hid⟩
  simp only [this] at h
  injection h with h; injection h with h1 h2
  injection h2 with h2
  exact ⟨h1.symm, h2.symm⟩

/-- the derived registration ids are functions of the (awaiting, awaited) pair / (promise, subscription id) -/
theorem callback_id_deterministic (root leaf : String) : Coro.callbackId root leaf = "__resume:" ++ root ++ ":" ++ leaf := rfl
theorem subscription_id_deterministic (p i : String) : Coro.subscriptionId p i = "__notify:" ++ p ++ ":" ++ i := rfl

/-- **Finding F2 (witness).** The derived ids are NOT injective when ids contain `:` — two different
    registrations collide, and since `TASK_INSERT_ALL` has no conflict clause the later completion fails. -/
theorem callbackId_not_injective : Coro.callbackId "a" "b:c" = Coro.callbackId "a:b" "c" ∧ ("a", "b:c") ≠ ("a:b", "c") := by
  decide

/-! ### non-vacuity -/
def exRow : PromiseRow := { id := "a", sortId := 1, state := 1, paramHeaders := [], paramData := "", valueHeaders := none, valueData := none, timeout := 10, idempotencyKeyForCreate := none, idempotencyKeyForComplete := none, tags := [], createdOn := some 0, completedOn := none }
def exCb : CallbackRow := { id := "__resume:r:a", promiseId := "a", rootPromiseId := "r", recv := "x", mesg := ⟨"resume", "r", "a"⟩, timeout := 1, createdOn := 0 }

example : CbInv { promises := [exRow], callbacks := [exCb] } := by
  intro cb hcb
  simp at hcb
  subst hcb
  exact ⟨exRow, by simp, rfl, rfl⟩

end Resonate.C05
