/-
  Properties/C12.lean — every request gets exactly one response (conservation law of the kernel model).

  For every request id: (#times submitted) = (#responses emitted) + (#times still inside the server: in the API
  queue or as a live request coroutine), in every run of the kernel model — every arrival pattern, queue / batch / pool
  size, completion batching, store batch composition and failure pattern, and every moment of shutdown — as long as
  the process neither crashes (`crash` choice: in-flight responses are lost with the process, property C06) nor
  halts on a panic (property C13).  With distinct request ids this is: never two responses, and a request without
  a response is still inside.  Model: Model/System.lean, tied to the real kernel by sysdiff (which compares the
  response events of every step).
-/
import Resonate.Proofs.SysDb
import Resonate.Model.SqlSpec
import Resonate.Model.Env
import Resonate.Properties.C13
namespace Resonate.C12

def isResp (tid : String) : Event → Bool
  | .respond t _ => t == tid
  | _ => false

def respCount (tid : String) (evs : List Event) : Nat := evs.countP (isResp tid)

/-- 1 if this is a request coroutine of `tid` (background coroutines answer nobody) -/
def isReq (tid : String) (th : Thread) : Bool := th.isBg.isNone && th.tid == tid

def liveCount (tid : String) (s : Sys) : Nat := s.apiQ.countP (·.1 == tid) + s.threads.countP (isReq tid)

/-! ### threads -/

theorem respCount_dispatch (tid : String) (l : List (SubId × Subm)) :
    respCount tid (l.map fun (i, s) => Event.dispatch i s) = 0 := by
  induction l with
  | nil => rfl
  | cons a l ih => simp only [List.map_cons, respCount, List.countP_cons] at ih ⊢; simp [isResp, ih]

/-- running one thread until it blocks: it either stays (no response yet) or ends with exactly one response
    (a request coroutine) / none (a background coroutine) — unless it panics -/
theorem run_count (tid : String) (t : Time) : ∀ (fuel : Nat) (th : Thread),
    (th.run t fuel).2.2.2 = none →
    respCount tid (th.run t fuel).2.1 + (match (th.run t fuel).1 with | some x => (if isReq tid x then 1 else 0) | none => 0)
      = if isReq tid th then 1 else 0 := by
  intro fuel
  induction fuel with
  | zero => intro th h; simp [Thread.run] at h
  | succ n ih =>
    intro th h
    unfold Thread.run at h ⊢
    cases hco : th.co with
    | done o =>
      simp only [hco] at h ⊢
      cases hb : th.isBg with
      | none =>
        cases o with
        | none => simp [hb] at h
        | some r => simp [hb, respCount, isResp, isReq]
      | some k => simp [hb, respCount, isResp, isReq]
    | panic site => simp [hco] at h
    | retry =>
      simp only [hco] at h ⊢
      have := ih { th with co := th.restart t } h
      simpa [isReq] using this
    | yield subs k =>
      simp only [hco] at h ⊢
      split
      · rename_i he
        simp only [he, if_true] at h
        have := ih { th with co := k t [] } h
        simpa [isReq] using this
      · simp only [respCount_dispatch, Nat.zero_add]
        simp [isReq]

theorem runAll_cons_false (t : Time) (th : Thread) (rest : List (Thread × Bool)) :
    runAll t ((th, false) :: rest) = (th :: (runAll t rest).1, (runAll t rest).2.1, (runAll t rest).2.2.1, (runAll t rest).2.2.2) := rfl

theorem runAll_cons_true (t : Time) (th : Thread) (rest : List (Thread × Bool)) :
    runAll t ((th, true) :: rest) =
      ((match (th.run t fuelPerThread).1 with | some x => [x] | none => []) ++ (runAll t rest).1,
       (th.run t fuelPerThread).2.1 ++ (runAll t rest).2.1, (th.run t fuelPerThread).2.2.1 ++ (runAll t rest).2.2.1,
       if (th.run t fuelPerThread).2.2.2.isSome then (th.run t fuelPerThread).2.2.2 else (runAll t rest).2.2.2) := rfl

theorem runAll_count (tid : String) (t : Time) : ∀ (cands : List (Thread × Bool)),
    (runAll t cands).2.2.2 = none →
    respCount tid (runAll t cands).2.1 + (runAll t cands).1.countP (isReq tid) = (cands.map (·.1)).countP (isReq tid) := by
  intro cands
  induction cands with
  | nil => intro _; rfl
  | cons c rest ih =>
    obtain ⟨th, b⟩ := c
    cases b with
    | false =>
      intro h
      rw [runAll_cons_false] at h ⊢
      have := ih h
      simp only [List.map_cons, List.countP_cons]
      omega
    | true =>
      intro h
      rw [runAll_cons_true] at h ⊢
      simp only at h
      have hh : (th.run t fuelPerThread).2.2.2 = none := by
        cases hx : (th.run t fuelPerThread).2.2.2 with
        | none => rfl
        | some x => simp [hx] at h
      have hrest : (runAll t rest).2.2.2 = none := by simpa [hh] using h
      have h1 := run_count tid t fuelPerThread th hh
      have h2 := ih hrest
      simp only [List.map_cons, List.countP_cons, respCount, List.countP_append] at h1 h2 ⊢
      cases hr : (th.run t fuelPerThread).1 with
      | none => simp only [hr] at h1 ⊢; simp only [List.countP_nil]; omega
      | some x =>
        simp only [hr] at h1 ⊢
        simp only [List.countP_cons, List.countP_nil]
        omega

/-- API submissions taken off the queue become request coroutines, or are refused with one response each -/
theorem startReqs_cons (env : Env) (t : Time) (a : String × Req) (q : List (String × Req)) (cnt : Nat) :
    startReqs env t (a :: q) cnt =
      if cnt < env.cfg.coroutineMaxSize then (newThread a.1 none (a.2.body env t) :: (startReqs env t q (cnt + 1)).1, (startReqs env t q (cnt + 1)).2)
      else ((startReqs env t q cnt).1, .respond a.1 (.error S_SCHEDULER_QUEUE_FULL) :: (startReqs env t q cnt).2) := by
  rw [startReqs]

theorem startReqs_count (tid : String) (env : Env) (t : Time) : ∀ (q : List (String × Req)) (cnt : Nat),
    respCount tid (startReqs env t q cnt).2 + (startReqs env t q cnt).1.countP (isReq tid) = q.countP (·.1 == tid) := by
  intro q
  induction q with
  | nil => intro _; rfl
  | cons a q ih =>
    intro cnt
    rw [startReqs_cons]
    split
    · have := ih (cnt + 1)
      simp only [List.countP_cons, isReq, newThread, Option.isNone_none, Bool.true_and] at this ⊢
      omega
    · have := ih cnt
      simp only [List.countP_cons, respCount, isResp] at this ⊢
      by_cases hx : (a.1 == tid) = true <;> simp only [hx, if_true, if_false, Bool.false_eq_true] at this ⊢ <;> omega

/-- background coroutines are never request coroutines -/
theorem startBg_count (tid : String) (env : Env) (en dr : Bool) (live : List Thread) (t : Time) :
    ∀ (bs : List BgState) (cnt : Nat), (startBg env en dr live t bs cnt).2.1.countP (isReq tid) = 0 := by
  intro bs
  induction bs with
  | nil => intro _; rfl
  | cons b rest ih =>
    intro cnt
    unfold startBg
    split
    · split
      · show List.countP (isReq tid) (newThread _ (some b.kind) _ :: (startBg env en dr live t rest (cnt + 1)).2.1) = 0
        rw [List.countP_cons, ih (cnt + 1)]
        simp [isReq, newThread]
      · exact ih cnt
    · exact ih cnt

theorem fillSlot_isReq (tid : String) (th : Thread) (seq : Nat) (c : Cpl) : isReq tid (fillSlot th seq c) = isReq tid th := rfl

theorem deliverAll_count (tid : String) : ∀ (cs : List (SubId × Cpl)) (ths : List Thread),
    (deliverAll ths cs).countP (isReq tid) = ths.countP (isReq tid) := by
  intro cs
  induction cs with
  | nil => intro _; rfl
  | cons c rest ih =>
    intro ths
    unfold deliverAll
    rw [ih]
    induction ths with
    | nil => rfl
    | cons th ths iht =>
      simp only [List.map_cons, List.countP_cons, iht]
      split <;> rfl

theorem resume_isReq (tid : String) (th th' : Thread) (t : Time) (h : th.resume? t = some th') : isReq tid th' = isReq tid th := by
  unfold Thread.resume? at h
  split at h
  · cases h
  · split at h
    · split at h
      · cases h; rfl
      · cases h
    · split at h
      · split at h
        · cases h; rfl
        · cases h
      · cases h

theorem candidates_count (tid : String) (t : Time) (ths : List Thread) :
    ((ths.map fun th => match th.resume? t with | some th' => (th', true) | none => (th, false)).map (·.1)).countP (isReq tid)
      = ths.countP (isReq tid) := by
  induction ths with
  | nil => rfl
  | cons th ths ih =>
    simp only [List.map_cons, List.countP_cons, ih]
    cases hr : th.resume? t with
    | none => rfl
    | some th' => simp only [resume_isReq tid th th' t hr]

/-! ### one step -/

def submitCount (tid : String) : Choice → Nat
  | .submit t _ => if t == tid then 1 else 0
  | _ => 0

def isCrash : Choice → Bool
  | .crash => true
  | _ => false

/-- `Sys.tick` with the tuple patterns written as projections -/
theorem tick_eq (s : Sys) (t : Time) :
    s.tick t =
      if s.halted.isSome then (s, []) else
      let threads1 := deliverAll s.threads (s.cq.take s.env.cfg.completionBatchSize)
      let sb := startBg s.env s.bgEnabled (s.apiDone && s.apiQ.isEmpty) threads1 t s.bg 0
      let nDeq := dequeueCount s.env.cfg.submissionBatchSize s.apiQ.length
      let sr := startReqs s.env t (s.apiQ.take nDeq) sb.2.2
      let ra := runAll t (threads1.map (fun th => match th.resume? t with | some th' => (th', true) | none => (th, false))
          ++ (sb.2.1 ++ sr.1).map (fun th => (th, true)))
      ({ s with threads := ra.1, apiQ := s.apiQ.drop nDeq, cq := s.cq.drop s.env.cfg.completionBatchSize,
                bg := (if bgRefused s.env s.bgEnabled (s.apiDone && s.apiQ.isEmpty) threads1 t s.bg 0 then rotate1 sb.1 else sb.1),
                pending := s.pending ++ ra.2.2.1, halted := ra.2.2.2 }, sr.2 ++ ra.2.1) := rfl

theorem tick_count (tid : String) (s : Sys) (t : Time) (h : (s.tick t).1.halted = none) :
    respCount tid (s.tick t).2 + liveCount tid (s.tick t).1 = liveCount tid s := by
  rw [tick_eq] at h ⊢
  split
  · simp [respCount]
  · rename_i hh
    simp only [hh, Bool.false_eq_true, if_false] at h
    simp only at h ⊢
    have hq : (s.apiQ.take (dequeueCount s.env.cfg.submissionBatchSize s.apiQ.length)).countP (·.1 == tid)
        + (s.apiQ.drop (dequeueCount s.env.cfg.submissionBatchSize s.apiQ.length)).countP (·.1 == tid) = s.apiQ.countP (·.1 == tid) := by
      rw [← List.countP_append, List.take_append_drop]
    have h3 := startReqs_count tid s.env t (s.apiQ.take (dequeueCount s.env.cfg.submissionBatchSize s.apiQ.length))
      (startBg s.env s.bgEnabled (s.apiDone && s.apiQ.isEmpty) (deliverAll s.threads (s.cq.take s.env.cfg.completionBatchSize)) t s.bg 0).2.2
    have h4 := startBg_count tid s.env s.bgEnabled (s.apiDone && s.apiQ.isEmpty) (deliverAll s.threads (s.cq.take s.env.cfg.completionBatchSize)) t s.bg 0
    have h5 := runAll_count tid t _ h
    have h6 := candidates_count tid t (deliverAll s.threads (s.cq.take s.env.cfg.completionBatchSize))
    have h7 := deliverAll_count tid (s.cq.take s.env.cfg.completionBatchSize) s.threads
    have h8 : ∀ l : List Thread, ((l.map fun th => (th, true)).map (·.1)) = l := by
      intro l; induction l with | nil => rfl | cons a l ih => simp [ih]
    have hc : ∀ (A B C : List Thread),
        (((A.map fun (th : Thread) => match th.resume? t with | some th' => (th', true) | none => (th, false)) ++
          ((B ++ C).map fun (th : Thread) => (th, true))).map (fun (x : Thread × Bool) => x.1)).countP (isReq tid)
        = A.countP (isReq tid) + (B.countP (isReq tid) + C.countP (isReq tid)) := by
      intro A B C
      rw [List.map_append, List.countP_append, h8, List.countP_append, candidates_count]
    rw [hc, h7, h4] at h5
    simp only [liveCount, respCount, List.countP_append] at h3 h5 hq ⊢
    omega

/-- one step: what came in = what went out + what is still inside -/
theorem step_count (tid : String) (s : Sys) (c : Choice) (hc : isCrash c = false) (h : (s.step c).1.halted = none) :
    respCount tid (s.step c).2 + liveCount tid (s.step c).1 = liveCount tid s + submitCount tid c := by
  cases c with
  | submit t r =>
    simp only [Sys.step, submitCount]
    split
    · simp only [respCount, List.countP_cons, List.countP_nil, isResp]
      by_cases hx : (t == tid) = true <;> simp only [hx, if_true, if_false, Bool.false_eq_true] <;> omega
    · split
      · simp only [respCount, liveCount, List.countP_append, List.countP_cons, List.countP_nil]
        by_cases hx : (t == tid) = true <;> simp only [hx, if_true, if_false, Bool.false_eq_true] <;> omega
      · simp only [respCount, List.countP_cons, List.countP_nil, isResp]
        by_cases hx : (t == tid) = true <;> simp only [hx, if_true, if_false, Bool.false_eq_true] <;> omega
  | tick t => simpa [Sys.step, submitCount] using tick_count tid s t h
  | execStore items => simp [Sys.step, submitCount, respCount, liveCount, Sys.execStore]
  | complete id c =>
    simp only [Sys.step, submitCount]
    split <;> simp [respCount, liveCount]
  | shutdown => simp [Sys.step, submitCount, respCount, liveCount]
  | crash => simp [isCrash] at hc

/-! ### runs -/

/-- the run with its events -/
def trace (s : Sys) : List Choice → Sys × List Event
  | [] => (s, [])
  | c :: cs => let r := s.step c; let rr := trace r.1 cs; (rr.1, r.2 ++ rr.2)

theorem halted_persists (s : Sys) (c : Choice) (hc : isCrash c = false) (h : s.halted ≠ none) : (s.step c).1.halted ≠ none := by
  cases c with
  | submit t r => simp only [Sys.step]; split <;> (try split) <;> simpa using h
  | tick t =>
    simp only [Sys.step, Sys.tick]
    have : s.halted.isSome = true := by cases hh : s.halted with | none => exact absurd hh h | some x => rfl
    simp [this, h]
  | execStore items => simpa [Sys.step, Sys.execStore] using h
  | complete id c => simp only [Sys.step]; split <;> simpa using h
  | shutdown => simpa [Sys.step] using h
  | crash => simp [isCrash] at hc

theorem trace_halted (cs : List Choice) : ∀ (s : Sys), (cs.all fun c => !isCrash c) = true → s.halted ≠ none → (trace s cs).1.halted ≠ none := by
  induction cs with
  | nil => intro s _ h; exact h
  | cons c cs ih =>
    intro s hc h
    simp only [List.all_cons, Bool.and_eq_true, Bool.not_eq_true'] at hc
    exact ih _ hc.2 (halted_persists s c hc.1 h)

/-- **C12, conservation**: in every run without process crash that does not halt on a panic, for every request id:
    responses emitted + requests still inside (queued or running) = requests inside at the start + submissions. -/
theorem conservation (tid : String) (cs : List Choice) : ∀ (s : Sys),
    (cs.all fun c => !isCrash c) = true → (trace s cs).1.halted = none →
    respCount tid (trace s cs).2 + liveCount tid (trace s cs).1 = liveCount tid s + (cs.map (submitCount tid)).sum := by
  induction cs with
  | nil => intro s _ _; simp [trace, respCount]
  | cons c cs ih =>
    intro s hc hh
    simp only [List.all_cons, Bool.and_eq_true, Bool.not_eq_true'] at hc
    simp only [trace] at hh ⊢
    have h1 : (s.step c).1.halted = none := by
      cases hx : (s.step c).1.halted with
      | none => rfl
      | some x => exact absurd hh (trace_halted cs _ hc.2 (by simp [hx]))
    have hs := step_count tid s c hc.1 h1
    have hr := ih (s.step c).1 hc.2 hh
    simp only [respCount, List.countP_append, List.map_cons, List.sum_cons] at hs hr ⊢
    omega

/-- **C12, exactly one**: from a fresh server, a request id submitted once has, at every moment, either exactly one
    response and is gone, or no response yet and is still inside exactly once — never two responses, never lost. -/
theorem exactly_one (env : Env) (d : Dialect) (g : SqlDefs) (db : Db) (tid : String) (cs : List Choice)
    (hc : (cs.all fun c => !isCrash c) = true) (hh : (trace (Sys.boot env d g db) cs).1.halted = none)
    (honce : (cs.map (submitCount tid)).sum = 1) :
    (respCount tid (trace (Sys.boot env d g db) cs).2 = 1 ∧ liveCount tid (trace (Sys.boot env d g db) cs).1 = 0) ∨
    (respCount tid (trace (Sys.boot env d g db) cs).2 = 0 ∧ liveCount tid (trace (Sys.boot env d g db) cs).1 = 1) := by
  have := conservation tid cs (Sys.boot env d g db) hc hh
  have h0 : liveCount tid (Sys.boot env d g db) = 0 := by simp [liveCount, Sys.boot]
  omega

/-- a request id never submitted is never answered -/
theorem no_spurious_response (env : Env) (d : Dialect) (g : SqlDefs) (db : Db) (tid : String) (cs : List Choice)
    (hc : (cs.all fun c => !isCrash c) = true) (hh : (trace (Sys.boot env d g db) cs).1.halted = none)
    (hnever : (cs.map (submitCount tid)).sum = 0) : respCount tid (trace (Sys.boot env d g db) cs).2 = 0 := by
  have := conservation tid cs (Sys.boot env d g db) hc hh
  have h0 : liveCount tid (Sys.boot env d g db) = 0 := by simp [liveCount, Sys.boot]
  omega

theorem trace_run (cs : List Choice) : ∀ (s : Sys), (trace s cs).1 = s.run cs := by
  induction cs with
  | nil => intro s; rfl
  | cons c cs ih => intro s; simp only [trace, Sys.run, List.foldl_cons]; exact ih _

/-- **C12, exactly one — without the "does not halt" hypothesis.** With the kernel composition of C13
    (`server_never_halts`): from a fresh server over a database with unique keys, along every run without process crash
    that respects `RunOkV`, a request id submitted once has at every moment either exactly one response and is gone, or
    no response yet and is still inside exactly once. -/
theorem exactly_one_every_run (env : Env) (d : Dialect) (db : Db) (hk : KeysX db) (clk : Time) (tid : String) (cs : List Choice)
    (hc : (cs.all fun c => !isCrash c) = true) (hok : C13.RunOkV clk (Sys.boot env d (SqlSpec.defs d) db) cs)
    (honce : (cs.map (submitCount tid)).sum = 1) :
    (respCount tid (trace (Sys.boot env d (SqlSpec.defs d) db) cs).2 = 1 ∧ liveCount tid (trace (Sys.boot env d (SqlSpec.defs d) db) cs).1 = 0) ∨
    (respCount tid (trace (Sys.boot env d (SqlSpec.defs d) db) cs).2 = 0 ∧ liveCount tid (trace (Sys.boot env d (SqlSpec.defs d) db) cs).1 = 1) :=
  exactly_one env d (SqlSpec.defs d) db tid cs hc (by rw [trace_run]; exact C13.server_never_halts d env db hk clk cs hok) honce

/-- backpressure and shutdown are explicit answers: a submission that is not accepted is answered at once, with
    `shutting down` after shutdown was requested and `API queue full` when the queue is full; an accepted one is queued -/
theorem refused_or_queued (s : Sys) (tid : String) (r : Req) :
    (s.apiDone = true → s.step (.submit tid r) = (s, [.respond tid (.error S_SHUTTING_DOWN)])) ∧
    (s.apiDone = false → ¬ s.apiQ.length < s.env.cfg.apiQueueSize → s.step (.submit tid r) = (s, [.respond tid (.error S_API_QUEUE_FULL)])) ∧
    (s.apiDone = false → s.apiQ.length < s.env.cfg.apiQueueSize → s.step (.submit tid r) = ({ s with apiQ := s.apiQ ++ [(tid, r)] }, [])) := by
  refine ⟨?_, ?_, ?_⟩
  · intro h; simp [Sys.step, h]
  · intro h h2; simp [Sys.step, h, h2]
  · intro h h2; simp [Sys.step, h, h2]

/-- requests accepted before shutdown stay inside after it (they are not dropped by the shutdown request) -/
theorem shutdown_keeps_accepted (s : Sys) (tid : String) : liveCount tid (s.step .shutdown).1 = liveCount tid s := rfl

/-! ### non-vacuity (evaluated at build time by `#guard`: tests of the executable model, not theorems) -/

private def demo (apiQueue pool : Nat) : Sys × List Event :=
  trace (Sys.boot (defaultEnv { apiQueueSize := apiQueue, coroutineMaxSize := pool }) .sqlite (SqlSpec.defs .sqlite))
    [.submit "a" (.readPromise "p"), .submit "b" (.readPromise "q"), .tick 10,
     .execStore [({ tid := "a", seq := 0 }, .ok), ({ tid := "b", seq := 0 }, .before)], .tick 20, .shutdown, .submit "c" (.readPromise "p")]

-- both answered exactly once (one from the store, one with the injected failure), the late one refused at once
#guard respCount "a" (demo 10 10).2 == 1 && respCount "b" (demo 10 10).2 == 1 && respCount "c" (demo 10 10).2 == 1 && (demo 10 10).1.halted.isNone
-- API queue of one: the second submission is refused with `queue full` — still exactly one answer each
#guard respCount "a" (demo 1 10).2 == 1 && respCount "b" (demo 1 10).2 == 1 && liveCount "a" (demo 1 10).1 == 0
-- coroutine pool of one: the second request is refused by the scheduler — still exactly one answer each
#guard respCount "a" (demo 10 1).2 == 1 && respCount "b" (demo 10 1).2 == 1

end Resonate.C12
