/-
  Properties/C14.lean — search with cursors returns exactly the matching set, once each, newest first.
-/
import Resonate.Model.SqlSpec
import Resonate.Model.Coroutines
import Resonate.Proofs.Paging
import Resonate.Proofs.Frame
import Resonate.Proofs.Lift
namespace Resonate.C14
open Resonate SqlSpec

variable (d : Dialect)

/-- the query of a promise search: id pattern (LIKE after `*`→`%`), state mask, tag filter -/
def pMatches (c : SearchPromisesCmd) (r : PromiseRow) : Bool :=
  dLike d r.id (starToPercent c.id) && ((r.state &&& maskOf c.states) != 0) && dTagsMatch d r.tags c.tags

def sMatches (c : SearchSchedulesCmd) (r : ScheduleRow) : Bool :=
  dLike d r.id (starToPercent c.id) && dTagsMatch d r.tags c.tags

theorem cursor_guard (c : Option Int) (s : Nat) : ((dSortIdArg d c).isNone || sqlLtO (Int.ofNat s) c) = below c s := by
  cases d <;> cases c <;> simp [dSortIdArg, pgInt4, sqlLtO, below]

/-- **One page = `pageOf`.** The store's answer to a promise search with a positive limit is exactly the
    abstract page: qualifying rows (matching, strictly below the cursor), newest first, first `limit`. -/
theorem search_is_page (db : Db) (c : SearchPromisesCmd) (hid : c.id ≠ "") (hl : 0 ≤ c.limit) :
    db.exec (defs d) (.searchPromises c) =
      .ok (db, .promises ((pageOf db.promises (·.sortId) (pMatches d c) c.sortId c.limit.toNat).map promiseSearch_proj)) := by
  simp only [Db.exec]
  have hne : (c.id == "") = false := by simpa using hid
  simp only [hne, Bool.false_eq_true, if_false, defs, promiseSearch_limit, takeLimit]
  have : ¬ c.limit < 0 := by omega
  simp only [this, if_false, pageOf]
  have : db.promises.filter (promiseSearch_where d c) = db.promises.filter (fun r => below c.sortId r.sortId && pMatches d c r) := by
    apply List.filter_congr
    intro r _
    simp only [promiseSearch_where, pMatches, cursor_guard, Bool.and_assoc]
  rw [this]

theorem search_schedules_is_page (db : Db) (c : SearchSchedulesCmd) (hid : c.id ≠ "") (hl : 0 ≤ c.limit) :
    db.exec (defs d) (.searchSchedules c) =
      .ok (db, .schedules ((pageOf db.schedules (·.sortId) (sMatches d c) c.sortId c.limit.toNat).map scheduleSearch_proj)) := by
  simp only [Db.exec]
  have hne : (c.id == "") = false := by simpa using hid
  simp only [hne, Bool.false_eq_true, if_false, defs, scheduleSearch_limit, takeLimit]
  have : ¬ c.limit < 0 := by omega
  simp only [this, if_false, pageOf]
  have : db.schedules.filter (scheduleSearch_where d c) = db.schedules.filter (fun r => below c.sortId r.sortId && sMatches d c r) := by
    apply List.filter_congr
    intro r _
    simp only [scheduleSearch_where, sMatches, cursor_guard, Bool.and_assoc]
  rw [this]

/-- the projection of a search keeps every column (including `sort_id`, from which the cursor is made) -/
theorem search_proj_id (r : PromiseRow) : promiseSearch_proj r = r := rfl

/-! ### sort ids: strictly increasing in table order, for ever (arbitrary commands) -/

def PromSorted (db : Db) : Prop :=
  db.promises.Pairwise (fun a b => a.sortId < b.sortId) ∧ ∀ r ∈ db.promises, r.sortId ≤ db.seqP

theorem promSorted_createPromise (db : Db) (c : CreatePromiseCmd) (h : PromSorted db) : PromSorted (db.createPromise (defs d) c).1 := by
  unfold Db.createPromise
  split
  · exact ⟨h.1, fun r hr => Nat.le_succ_of_le (h.2 r hr)⟩
  · refine ⟨?_, ?_⟩
    · simp only [List.pairwise_append]
      refine ⟨h.1, List.pairwise_singleton _ _, ?_⟩
      intro a ha b hb
      simp only [List.mem_singleton] at hb; subst hb
      have := h.2 a ha
      simp only [defs, promiseInsert_row]; omega
    · intro r hr
      simp only [List.mem_append, List.mem_singleton] at hr
      rcases hr with hr | rfl
      · exact Nat.le_succ_of_le (h.2 r hr)
      · simp [defs, promiseInsert_row]

theorem promSorted_exec (db db' : Db) (cmd : Cmd) (r : Res) (hi : PromSorted db)
    (h : db.exec (defs d) cmd = .ok (db', r)) : PromSorted db' := by
  have fr := exec_frame _ _ _ _ _ h
  by_cases hw : cmd.wP = false
  · unfold PromSorted; rw [(fr.1 hw).1, (fr.1 hw).2]; exact hi
  · cases cmd with
    | createPromise c =>
      simp only [Db.exec] at h
      injection h with h; injection h with h _; subst h
      exact promSorted_createPromise d db c hi
    | updatePromise c =>
      simp only [Db.exec] at h
      split at h
      · cases h
      · injection h with h; injection h with h _; subst h
        refine ⟨?_, ?_⟩
        · simp only [updateWhere]
          rw [List.pairwise_map]
          refine hi.1.imp ?_
          intro a b hab
          have ha : (if (defs d).promiseUpdate_where c a = true then (defs d).promiseUpdate_set c a else a).sortId = a.sortId := by split <;> rfl
          have hb : (if (defs d).promiseUpdate_where c b = true then (defs d).promiseUpdate_set c b else b).sortId = b.sortId := by split <;> rfl
          rw [ha, hb]; exact hab
        · intro r hr
          simp only [updateWhere, List.mem_map] at hr
          obtain ⟨r0, hr0, rfl⟩ := hr
          have : (if (defs d).promiseUpdate_where c r0 = true then (defs d).promiseUpdate_set c r0 else r0).sortId = r0.sortId := by split <;> rfl
          rw [this]; exact hi.2 r0 hr0
    | createPromiseAndTask c =>
      simp only [Db.exec] at h
      have h1 := promSorted_createPromise d db c.promiseCommand hi
      split at h
      · injection h with h; injection h with h _; subst h; exact h1
      · split at h
        · rename_i db2 m hct
          injection h with h; injection h with h _; subst h
          have f := createTask_frame _ _ _ _ _ hct
          unfold PromSorted; rw [f.1, f.2.2.2.2.1]; exact h1
        · cases h
    | _ => simp [Cmd.wP] at hw

theorem promSorted_batches (bs : List (List (List Cmd))) (db : Db) (h : PromSorted db) : PromSorted (db.execBatches (defs d) bs) :=
  execBatches_inv (defs d) PromSorted (fun db db' c r hi hx => promSorted_exec d db db' c r hi hx) bs db h

/-! ### the page-level guarantees, on any database reachable by any command history -/

/-- nothing that does not match is returned; everything returned is a stored row below the cursor -/
theorem page_sound_promises (db : Db) (c : SearchPromisesCmd) (r : PromiseRow)
    (hr : r ∈ pageOf db.promises (·.sortId) (pMatches d c) c.sortId c.limit.toNat) :
    r ∈ db.promises ∧ pMatches d c r = true ∧ below c.sortId r.sortId = true := page_sound _ _ _ _ _ r hr

/-- newest first, at most the page size -/
theorem page_order (db : Db) (hs : PromSorted db) (c : SearchPromisesCmd) :
    (pageOf db.promises (·.sortId) (pMatches d c) c.sortId c.limit.toNat).Pairwise (fun a b => b.sortId < a.sortId) ∧
    (pageOf db.promises (·.sortId) (pMatches d c) c.sortId c.limit.toNat).length ≤ c.limit.toNat :=
  ⟨page_descending _ _ _ _ _ hs.1, page_length _ _ _ _ _⟩

/-- a matching row below the cursor is returned on this page, or the page is full and the row is older
    than every row on it — so it is found on a later page (also when other rows are created, completed or
    timed out between pages: sort ids never change and new rows get larger ones) -/
theorem page_complete_promises (db : Db) (hs : PromSorted db) (c : SearchPromisesCmd) (r : PromiseRow) (hr : r ∈ db.promises)
    (hm : pMatches d c r = true) (hb : below c.sortId r.sortId = true) :
    r ∈ pageOf db.promises (·.sortId) (pMatches d c) c.sortId c.limit.toNat ∨
    ((pageOf db.promises (·.sortId) (pMatches d c) c.sortId c.limit.toNat).length = c.limit.toNat ∧
      ∀ x ∈ pageOf db.promises (·.sortId) (pMatches d c) c.sortId c.limit.toNat, r.sortId < x.sortId) :=
  page_complete _ _ _ _ _ hs.1 r hr hm hb

/-- **whole traversal on a fixed database**: following the cursors to the end returns exactly the matching
    rows, each once, newest first, in pages of at most `n` -/
theorem traversal_exact (db : Db) (hs : PromSorted db) (c : SearchPromisesCmd) (n : Nat) (hn : 0 < n) :
    ∃ pages : List (List PromiseRow),
      pages.flatten = (db.promises.filter fun r => below c.sortId r.sortId && pMatches d c r).reverse ∧ ∀ p ∈ pages, p.length ≤ n :=
  traversal db.promises (·.sortId) (pMatches d c) n hn hs.1 _ c.sortId (Nat.le_mul_of_pos_right _ hn)

/-! ### the coroutine: cursor present exactly when the page was full; overdue hits are timed out first -/

/-- the continuation of `SearchPromises` after its store read -/
def searchK (req : SearchPromisesReq) (t0 : Time) : Time → List Cpl → Co :=
  match Coro.searchPromises req t0 with
  | .yield _ k => k
  | _ => fun _ _ => .retry

/-- `SearchPromises` on a completion without overdue pending promises answers OK with the rows as they are,
    and a cursor (the request with `sortId :=` the last row's sort id) exactly when `rows = limit` -/
theorem search_response (req : SearchPromisesReq) (t0 t : Time) (rows : List PromiseRow) (hid : req.id ≠ "") (hl : 0 < req.limit)
    (hnone : (rows.map PromiseRow.toPromise).filter (fun p => p.state == P_PENDING && decide (p.timeout ≤ t)) = []) :
    searchK req t0 t [.store [.promises rows]] = .done (some (.searchPromises S_OK (rows.map PromiseRow.toPromise)
        (if (rows.length : Int) == req.limit then some { req with sortId := some (match rows.getLast? with | some r => (r.sortId : Int) | none => 0) } else none))) := by
  unfold searchK Coro.searchPromises
  have h1 : (req.id == "") = false := by simpa using hid
  have h2 : ¬ req.limit ≤ 0 := by omega
  simp only [h1, Bool.false_eq_true, if_false, h2]
  simp only [hnone, List.isEmpty_nil, if_true]
  rfl

/-- if the page contains pending promises whose timeout has passed, the coroutine does not answer: it
    times each of them out (the four-command completion block, completed_on = timeout) and searches again -/
theorem search_times_out_overdue_first (req : SearchPromisesReq) (t0 t : Time) (rows : List PromiseRow) (hid : req.id ≠ "") (hl : 0 < req.limit)
    (p : Promise) (ps : List Promise)
    (hsome : (rows.map PromiseRow.toPromise).filter (fun p => p.state == P_PENDING && decide (p.timeout ≤ t)) = p :: ps) :
    ∃ k2, searchK req t0 t [.store [.promises rows]] = .yield ((p :: ps).map fun p => .store (Coro.completeTx (Coro.timeoutCmd p.id p) t)) k2 := by
  unfold searchK Coro.searchPromises
  have h1 : (req.id == "") = false := by simpa using hid
  have h2 : ¬ req.limit ≤ 0 := by omega
  simp only [h1, Bool.false_eq_true, if_false, h2]
  simp only [hsome, List.isEmpty_cons, Bool.false_eq_true, if_false]
  exact ⟨_, rfl⟩

/-! ### non-vacuity -/
example : PromSorted { promises := [], seqP := 0 } := ⟨List.Pairwise.nil, by intro r hr; cases hr⟩
example : below (some 5) 3 = true ∧ below (some 5) 5 = false ∧ below none 7 = true := by decide

end Resonate.C14
