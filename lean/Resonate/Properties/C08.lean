/-
  Properties/C08.lean — tasks are born and finished with their promise; dispatch is disciplined.
-/
import Resonate.Proofs.CoBasics
import Resonate.Proofs.Frame
import Resonate.Proofs.Wf
import Resonate.Proofs.StoreBasics
import Resonate.Proofs.TaskInv
import Resonate.Model.SqlSpec
namespace Resonate.C08
open Resonate Coro SqlSpec

variable (d : Dialect)

/-! ### born together: one command, one transaction -/

/-- `CreatePromiseAndTask` on a fresh promise id whose task id is free inserts BOTH rows (the task with the
    given receiver, message, state and root = the promise id); on an existing promise id it inserts NEITHER -/
theorem born_together (db : Db) (c : CreatePromiseAndTaskCmd) (hstate : c.taskCommand.state = 1 ∨ (c.taskCommand.state = 4 ∧ c.taskCommand.processId.isSome = true))
    (hp : ∀ r ∈ db.promises, r.id ≠ c.promiseCommand.id) (ht : ∀ t ∈ db.tasks, t.id ≠ c.taskCommand.id) :
    db.exec (defs d) (.createPromiseAndTask c) =
      .ok ({ db with promises := db.promises ++ [promiseInsert_row c.promiseCommand (db.seqP + 1)], seqP := db.seqP + 1,
                     tasks := db.tasks ++ [taskInsert_row c.taskCommand (db.seqT + 1)], seqT := db.seqT + 1 }, .rows2 1 1) := by
  have h1 : db.promises.any (fun r => r.id == c.promiseCommand.id) = false := by
    simp only [List.any_eq_false]; intro r hr; simpa using hp r hr
  have h2 : db.tasks.any (fun r => r.id == c.taskCommand.id) = false := by
    simp only [List.any_eq_false]; intro r hr; simpa using ht r hr
  have h3 : (!(c.taskCommand.state == 1 || c.taskCommand.state == 4)) = false := by
    rcases hstate with h | h <;> simp [h]
  have h4 : (c.taskCommand.state == 4 && c.taskCommand.processId.isNone) = false := by
    rcases hstate with h | h
    · simp [h]
    · cases hpid : c.taskCommand.processId <;> simp_all
  simp [Db.exec, Db.createPromise, Db.createTask, h1, h2, h3, h4, defs]

/-- the inserted task is addressed at the promise: root = message root, counter 1, attempt 0 -/
theorem task_row (c : CreateTaskCmd) (n : Nat) :
    (taskInsert_row c n).rootPromiseId = c.mesg.root ∧ (taskInsert_row c n).recv = c.recv ∧ (taskInsert_row c n).counter = 1 ∧
    (taskInsert_row c n).attempt = 0 ∧ (taskInsert_row c n).state = c.state ∧ (taskInsert_row c n).id = c.id := ⟨rfl, rfl, rfl, rfl, rfl, rfl⟩

/-- the coroutine side: what is written for a fresh promise depends only on the router's answer —
    matched ⇒ exactly one `CreatePromiseAndTask` (task `__invoke:<id>`, state init, recv = the router's), in ONE transaction;
    unmatched ⇒ a bare `CreatePromise`; router failure ⇒ NOTHING is written and the request fails -/
theorem child_matched (pc : CreatePromiseCmd) (recv : String) (k : ChildOut → Co) (t : Time) :
    (createPromiseChild pc none [] k).next t [.router true recv] =
      childStore pc (some { id := invokeId pc.id, recv := recv, mesg := { type := "invoke", root := pc.id, leaf := pc.id }, timeout := pc.timeout, processId := none, state := T_INIT, ttl := 0, expiresAt := 0, createdOn := pc.createdOn }) [] k := by
  simp [createPromiseChild, Co.next, routeFailed, routeOf, childTask]

theorem child_unmatched (pc : CreatePromiseCmd) (recv : String) (k : ChildOut → Co) (t : Time) :
    (createPromiseChild pc none [] k).next t [.router false recv] = childStore pc none [] k := by
  simp [createPromiseChild, Co.next, routeFailed, routeOf, childTask]

theorem child_router_failed (pc : CreatePromiseCmd) (tc : Option CreateTaskCmd) (k : ChildOut → Co) (t : Time) :
    (createPromiseChild pc tc [] k).next t [.err] = k (.error S_AIO_MATCH) := by
  simp [createPromiseChild, Co.next, routeFailed]

/-- create-with-task on a promise the router does not match is refused rather than half-done: no store write -/
theorem create_with_task_unrouted_refused (pc : CreatePromiseCmd) (tc : CreateTaskCmd) (recv : String) (k : ChildOut → Co) (t : Time) :
    (createPromiseChild pc (some tc) [] k).next t [.router false recv] = k (.error S_PROMISE_RECV_NOT_FOUND) := by
  simp [createPromiseChild, Co.next, routeFailed, routeOf]

theorem childStore_is_one_transaction (pc : CreatePromiseCmd) (ft : Option CreateTaskCmd) (k : ChildOut → Co) :
    (childStore pc ft [] k).subs = [.store [childCmd pc ft]] := rfl

/-! ### finished together -/

/-- the completion block finishes, in the same transaction, every live task whose root is the completed
    promise (they are `completed` afterwards — and by C07 can never be claimed again) -/
theorem finished_together (db db' : Db) (c : UpdatePromiseCmd) (t1 t2 : Int) (rs : List Res)
    (h : db.execTx (defs d) [.updatePromise c, .completeTasks ⟨c.id, t1⟩, .createTasks ⟨c.id, t2⟩, .deleteCallbacks ⟨c.id⟩] = .ok (db', rs)) :
    ∀ (i : Nat) (tk : TaskRow), db.tasks[i]? = some tk → tk.rootPromiseId = c.id → (tk.state = 1 ∨ tk.state = 2 ∨ tk.state = 4) →
      db'.tasks[i]? = some { tk with state := 8, completedOn := some t1 } := by
  obtain ⟨db1, r1, rs1, e1, x1, _⟩ := execTx_cons_ok _ _ _ _ _ _ h
  obtain ⟨db2, r2, rs2, e2, x2, _⟩ := execTx_cons_ok _ _ _ _ _ _ x1
  obtain ⟨db3, r3, rs3, e3, x3, _⟩ := execTx_cons_ok _ _ _ _ _ _ x2
  obtain ⟨db4, r4, rs4, e4, x4, _⟩ := execTx_cons_ok _ _ _ _ _ _ x3
  simp [Db.execTx] at x4
  obtain ⟨hdb, _⟩ := x4
  subst hdb
  intro i tk hi hroot hlive
  have f1 := exec_frame _ _ _ _ _ e1
  have f4 := exec_frame _ _ _ _ _ e4
  have t1eq : db1.tasks = db.tasks := (f1.2.2.2.2 rfl).1
  have t4eq : db4.tasks = db3.tasks := (f4.2.2.2.2 rfl).1
  -- completeTasks
  simp only [Db.exec] at e2
  injection e2 with e2; injection e2 with hdb2 _
  have h2 : db2.tasks[i]? = some { tk with state := 8, completedOn := some t1 } := by
    rw [← hdb2]
    have : (defs d).taskCompleteByRootId_where ⟨c.id, t1⟩ tk = true := by
      simp only [defs, taskCompleteByRootId_where, Bool.and_eq_true, beq_iff_eq, Bool.or_eq_true]
      exact ⟨hroot, by rcases hlive with h | h | h <;> simp [h]⟩
    simp only [updateWhere, List.getElem?_map, t1eq, hi, Option.map_some, this, if_true]
    rfl
  -- createTasks only appends
  simp only [Db.exec] at e3
  split at e3
  · rename_i ts s n hins
    injection e3 with e3; injection e3 with hdb3 _
    have happ : ∃ extra, ts = db2.tasks ++ extra := insertTasksFrom_append _ _ _ _ _ _ _ _ hins
    obtain ⟨extra, he⟩ := happ
    rw [t4eq, ← hdb3]
    simp only [he]
    rw [List.getElem?_append_left (List.getElem?_eq_some_iff.mp h2).1]
    exact h2
  · cases e3

/-! ### dispatch selects only what may be dispatched (regenerated guard) -/

/-- the enqueueable query's guard: the task is `init` and no task of the same root is enqueued or claimed -/
theorem enqueueable_guard (c : ReadEnqueueableTasksCmd) (db : Db) (r : TaskRow) :
    taskSelectEnqueueable_where c db r = true ↔
      (r.state = 1 ∧ ∀ r2 ∈ db.tasks, r2.rootPromiseId = r.rootPromiseId → (r2.state ≠ 2 ∧ r2.state ≠ 4)) := by
  simp only [taskSelectEnqueueable_where, Bool.and_eq_true, beq_iff_eq, Bool.not_eq_true', List.any_eq_false, Bool.or_eq_true, not_and, not_or]

/-- `firstPerRoot` keeps at most one task per root promise -/
theorem firstPerRoot_one_per_root : ∀ (n : Nat) (l : List TaskRow), l.length ≤ n →
    (firstPerRoot l).Pairwise (fun a b => a.rootPromiseId ≠ b.rootPromiseId) ∧ ∀ x ∈ firstPerRoot l, x ∈ l := by
  intro n
  induction n with
  | zero => intro l hl; have : l = [] := by cases l <;> simp_all
            subst this; simp [firstPerRoot]
  | succ n ih =>
    intro l hl
    cases l with
    | nil => simp [firstPerRoot]
    | cons t rest =>
      rw [firstPerRoot]
      have hlen : (rest.filter fun u => u.rootPromiseId != t.rootPromiseId).length ≤ n := by
        have := List.length_filter_le (fun u : TaskRow => u.rootPromiseId != t.rootPromiseId) rest
        simp at hl; omega
      obtain ⟨hp, hm⟩ := ih _ hlen
      refine ⟨List.pairwise_cons.mpr ⟨?_, hp⟩, ?_⟩
      · intro b hb
        have := (List.mem_filter.mp (hm b hb)).2
        simpa [ne_comm] using this
      · intro x hx
        simp only [List.mem_cons] at hx
        rcases hx with rfl | hx
        · exact List.mem_cons_self ..
        · exact List.mem_cons_of_mem _ (List.mem_filter.mp (hm x hx)).1

/-- **what a dispatch cycle reads**: only tasks that are init, whose root has no enqueued/claimed task, at
    most one per root, at most `limit` -/
theorem dispatch_selection (db : Db) (c : ReadEnqueueableTasksCmd) (rows : List TaskRow) (hl : 0 ≤ c.limit)
    (h : db.exec (defs d) (.readEnqueueableTasks c) = .ok (db, .tasks rows)) :
    rows.length ≤ c.limit.toNat ∧
    (∀ r ∈ rows, ∃ r0 ∈ db.tasks, r = taskSelectEnqueueable_proj r0 ∧ r0.state = 1 ∧
        ∀ r2 ∈ db.tasks, r2.rootPromiseId = r0.rootPromiseId → (r2.state ≠ 2 ∧ r2.state ≠ 4)) ∧
    rows.Pairwise (fun a b => a.rootPromiseId ≠ b.rootPromiseId) := by
  simp only [Db.exec] at h
  injection h with h; injection h with _ hr
  injection hr with hr
  subst hr
  have hnl : ¬ c.limit < 0 := by omega
  simp only [defs, taskSelectEnqueueable_limit, takeLimit, hnl, if_false]
  obtain ⟨hp, hm⟩ := firstPerRoot_one_per_root _ ((db.tasks.filter (taskSelectEnqueueable_where c db)).mergeSort taskOrdLe) (Nat.le_refl _)
  refine ⟨by simp [List.length_take]; exact Nat.min_le_left _ _, ?_, ?_⟩
  · intro r hrm
    simp only [List.mem_map] at hrm
    obtain ⟨r0, hr0, rfl⟩ := hrm
    have h1 := hm r0 (List.mem_of_mem_take hr0)
    rw [List.mem_mergeSort, List.mem_filter] at h1
    have hg := (enqueueable_guard c db r0).mp h1.2
    exact ⟨r0, h1.1, rfl, hg.1, hg.2⟩
  · rw [List.pairwise_map]
    exact (hp.sublist (List.take_sublist _ _)).imp (fun hab => by simpa [taskSelectEnqueueable_proj] using hab)

/-! ### hand-off outcomes (decision logic, all cases) -/

/-- enqueued ONLY after a successful hand-off; a failed or errored hand-off leaves the task init with
    `attempt + 1` (retried); a notification is finished after its first attempt whatever the outcome; every
    update is guarded by `init` and by the counter that was read -/
theorem handoff_outcome (e : Int) (r : TaskRow) (o : Cpl) :
    ∃ u : UpdateTaskCmd, enqueueOutcomeCmd e r o = .updateTask u ∧ u.id = r.id ∧ u.currentStates = [T_INIT] ∧ u.currentCounter = r.counter ∧
      u.counter = r.counter ∧
      (r.mesg.type = "notify" → u.state = T_COMPLETED) ∧
      (r.mesg.type ≠ "notify" → o = .sender true → u.state = T_ENQUEUED ∧ u.attempt = r.attempt) ∧
      (r.mesg.type ≠ "notify" → o ≠ .sender true → u.state = T_INIT ∧ u.attempt = r.attempt + 1) := by
  unfold enqueueOutcomeCmd
  by_cases hn : r.mesg.type = "notify"
  · simp [hn]
  · by_cases ho : o = .sender true
    · subst ho; simp [hn]
    · have : (match o with | .sender true => true | _ => false) = false := by
        cases o with
        | sender b =>
          cases b with
          | true => exact absurd rfl ho
          | false => rfl
        | _ => rfl
      simp [hn, this, ho]

/-- the dispatched message names exactly the task that was read: its id, its counter, and claim / complete /
    heartbeat links for that id and counter under the configured URL; a notification carries the promise that was read -/
theorem message_names_task (env : Env) (e : Int) (r : TaskRow) (pr : Res) :
    let m := senderReqOf env e r pr
    m.task.id = r.id ∧ m.task.counter = r.counter ∧ m.task.recv = r.recv ∧ m.task.mesg = r.mesg ∧
    m.claimHref = env.cfg.url ++ "/tasks/claim/" ++ r.id ++ "/" ++ toString r.counter ∧
    m.completeHref = env.cfg.url ++ "/tasks/complete/" ++ r.id ++ "/" ++ toString r.counter ∧
    m.heartbeatHref = env.cfg.url ++ "/tasks/heartbeat/" ++ r.id ++ "/" ++ toString r.counter ∧
    (∀ row rest, pr = .promises (row :: rest) → m.promise = some row.toPromise) := by
  refine ⟨rfl, rfl, rfl, rfl, rfl, rfl, rfl, ?_⟩
  intro row rest h; subst h; rfl

/-! ### non-vacuity -/
example : (childStore { id := "p", param := {}, timeout := 1, idempotencyKey := none, tags := [], createdOn := 0 } none [] (fun _ => .retry)).subs.length = 1 := rfl

end Resonate.C08
