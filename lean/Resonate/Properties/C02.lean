/-
  Properties/C02.lean — API histories are linearizable to the sequential durable-promise specification.

  The sequential specification is the SAME coroutine run by a single-threaded server: `seqRun` answers every store
  submission at once on the current database, one request at a time.  The concurrent kernel (Model/System.lean) runs
  the same coroutine with its reads and writes executed in different batches, arbitrarily interleaved with other
  requests and the background sweeps.  The theorems show that the interleaving is invisible: a request's answer and
  effect are those of `seqRun` started on the database as it stood at ONE instant inside the request's window —
  its (last) applied write, or its read when it writes nothing.

  PARTIAL (stated in MANIFEST): proved for single-transaction requests (locks, heartbeats, schedule read / search /
  delete, plain reads), for promise completion (explicit and the lazy time-out of ReadPromise), and — as stability of
  the decisive read at the write instant — for promise creation and registrations.  Not proved: ClaimTask /
  CompleteTask (three steps, an internal attempt counter is written back from the earlier read), CreateSchedule,
  SearchPromises with lazy time-outs (several writes and a retry).
-/
import Resonate.Proofs.Lin
import Resonate.Proofs.CoBasics
import Resonate.Properties.C06
namespace Resonate.C02
open SqlSpec Coro

/-! ### the sequential specification: the same coroutine, served alone -/

/-- a single-threaded server answers every submission immediately: a store transaction runs on the current database
    (an error leaves it unchanged), the router and the transports answer through the given oracles -/
def answerAll (g : SqlDefs) (route : Promise → Cpl) : Db → List Subm → Db × List Cpl
  | db, [] => (db, [])
  | db, .store tx :: rest =>
    match db.execTx g tx with
    | .ok (db', rs) => let r := answerAll g route db' rest; (r.1, .store rs :: r.2)
    | .error _ => let r := answerAll g route db rest; (r.1, .err :: r.2)
  | db, .router p :: rest => let r := answerAll g route db rest; (r.1, route p :: r.2)
  | db, .sender _ :: rest => let r := answerAll g route db rest; (r.1, .sender true :: r.2)

/-- run one request to its answer at clock `t` (`body` restarts it when it lost a race — which never happens when it is served alone) -/
def seqRun (g : SqlDefs) (route : Promise → Cpl) (body : Time → Co) (t : Time) : Nat → Db → Co → Db × Option Resp
  | 0, db, _ => (db, none)
  | _ + 1, db, .done o => (db, o)
  | _ + 1, db, .panic _ => (db, none)
  | fuel + 1, db, .retry => seqRun g route body t fuel db (body t)
  | fuel + 1, db, .yield subs k => let r := answerAll g route db subs; seqRun g route body t fuel r.1 (k t r.2)

/-! ### one transaction: atomic by construction -/

/-- a request whose coroutine submits ONE store transaction and answers from its result is linearized at that transaction:
    executed in any batch on the database `db` as it then stands, its answer and effect are those of the sequential run on `db` -/
theorem single_transaction_linearizable (g : SqlDefs) (route : Promise → Cpl) (body : Time → Co) (t : Time) (tx : List Cmd)
    (k : Time → List Cpl → Co) (hco : body t = .yield [.store tx] k)
    (db db' : Db) (rs : List Res) (hx : db.execTx g tx = .ok (db', rs)) (o : Option Resp) (hfin : k t [.store rs] = .done o) (fuel : Nat) :
    seqRun g route body t (fuel + 2) db (body t) = (db', o) := by
  rw [hco]
  simp only [seqRun, answerAll, hx, hfin]

/-- the single-transaction request kinds -/
theorem single_transaction_kinds :
    (∀ q t0, (acquireLock q t0).subs.length = 1) ∧ (∀ a b t0, (releaseLock a b t0).subs.length = 1) ∧
    (∀ p t0, (heartbeatLocks p t0).subs.length = 1) ∧ (∀ p t0, (heartbeatTasks p t0).subs.length = 1) ∧
    (∀ i t0, (readSchedule i t0).subs.length = 1) ∧ (∀ i t0, (deleteSchedule i t0).subs.length = 1) ∧
    (∀ i t0, (readPromise i t0).subs.length = 1) := by
  refine ⟨?_, ?_, ?_, ?_, ?_, ?_, ?_⟩ <;> intros <;> rfl

/-! ### read, then guarded write: the write is the linearization point -/

/-- if the read, repeated at the instant of the write, answers what the coroutine had read (stability — proved per kind
    below), then the concurrent execution (read in an earlier batch, write in `db2`) ends with the answer and the effect
    of the sequential run on `db2` -/
theorem two_step_collapse (g : SqlDefs) (route : Promise → Cpl) (body : Time → Co) (t : Time)
    (readTx writeTx : List Cmd) (k1 k2 : Time → List Cpl → Co) (db2 db3 : Db) (rs1 rs2 : List Res) (o : Option Resp)
    (hco : body t = .yield [.store readTx] k1)
    (hstable : db2.execTx g readTx = .ok (db2, rs1))
    (hnext : k1 t [.store rs1] = .yield [.store writeTx] k2)
    (hw : db2.execTx g writeTx = .ok (db3, rs2))
    (hfin : k2 t [.store rs2] = .done o) (fuel : Nat) :
    seqRun g route body t (fuel + 3) db2 (body t) = (db3, o) := by
  rw [hco]
  simp only [seqRun, answerAll, hstable, hnext, hw, hfin]

/-- **completion.** The coroutine read the pending promise `x` in `db1`; its completion block is applied in `db2`, whatever
    happened in between.  The read repeated at `db2` answers the same row (Lin.read_stable_until_completion), so by
    `two_step_collapse` the request is linearized at its write: same status, same returned promise, same effect as the
    single-threaded server on `db2`. -/
theorem completion_linearizable (d : Dialect) (route : Promise → Cpl) (req : CompletePromiseReq) (t : Time)
    (db1 db2 db3 : Db) (hm : PromMono db1 db2) (hk2 : PromIds db2) (x : PromiseRow) (hx : x ∈ db1.promises) (hid : x.id = req.id)
    (k2 : Time → List Cpl → Co) (tx : List Cmd) (cmd : UpdatePromiseCmd) (t1 : Time) (htx : tx = completeTx cmd t1) (hcid : cmd.id = x.id)
    (hnext : (completePromise req t).next t [.store [.promises [promiseSelect_proj x]]] = .yield [.store tx] k2)
    (rs : List Res) (hw : db2.execTx (defs d) tx = .ok (db3, rs)) (hone : rs.head? = some (.rows 1))
    (o : Option Resp) (hfin : k2 t [.store rs] = .done o) (fuel : Nat) :
    seqRun (defs d) route (completePromise req) t (fuel + 3) db2 (completePromise req t) = (db3, o) := by
  subst htx
  -- the guarded update of the block was applied in db2
  obtain ⟨dbu, r1, rs1, e1, _, hr⟩ := execTx_cons_ok _ _ _ _ _ _ hw
  have hr1 : r1 = .rows 1 := by rw [hr] at hone; simpa using hone
  subst hr1
  have hstable := read_stable_until_completion d db1 db2 dbu hm hk2 x hx cmd hcid e1
  have hst : db2.execTx (defs d) [.readPromise { id := req.id }] = .ok (db2, [.promises [promiseSelect_proj x]]) := by
    simp only [Db.execTx, ← hid, hstable]
  exact two_step_collapse (defs d) route (completePromise req) t [.readPromise { id := req.id }] _ _ k2 db2 db3 _ rs o rfl hst
    (by simpa [Co.next, completePromise] using hnext) hw hfin fuel

/-- **read with a lazy time-out.** The coroutine read the pending, overdue promise `x` in `db1` and its time-out block is applied in
    `db2` (the guarded update reports one row), whatever happened in between: like a completion, the read is linearized at that
    write — same answer (the promise as timed out) and same effect as the single-threaded server on `db2` -/
theorem lazy_timeout_read_linearizable (d : Dialect) (route : Promise → Cpl) (id : String) (t : Time)
    (db1 db2 db3 : Db) (hm : PromMono db1 db2) (hk2 : PromIds db2) (x : PromiseRow) (hx : x ∈ db1.promises) (hid : x.id = id)
    (k2 : Time → List Cpl → Co) (tx : List Cmd) (cmd : UpdatePromiseCmd) (t1 : Time) (htx : tx = completeTx cmd t1) (hcid : cmd.id = x.id)
    (hnext : (readPromise id t).next t [.store [.promises [promiseSelect_proj x]]] = .yield [.store tx] k2)
    (rs : List Res) (hw : db2.execTx (defs d) tx = .ok (db3, rs)) (hone : rs.head? = some (.rows 1))
    (o : Option Resp) (hfin : k2 t [.store rs] = .done o) (fuel : Nat) :
    seqRun (defs d) route (readPromise id) t (fuel + 3) db2 (readPromise id t) = (db3, o) := by
  subst htx
  obtain ⟨dbu, r1, rs1, e1, _, hr⟩ := execTx_cons_ok _ _ _ _ _ _ hw
  have hr1 : r1 = .rows 1 := by rw [hr] at hone; simpa using hone
  subst hr1
  have hstable := read_stable_until_completion d db1 db2 dbu hm hk2 x hx cmd hcid e1
  have hst : db2.execTx (defs d) [.readPromise { id := id }] = .ok (db2, [.promises [promiseSelect_proj x]]) := by
    simp only [Db.execTx, ← hid, hstable]
  exact two_step_collapse (defs d) route (readPromise id) t [.readPromise { id := id }] _ _ k2 db2 db3 _ rs o rfl hst
    (by simpa [Co.next, readPromise] using hnext) hw hfin fuel

/-- **creation.** The insert is applied (one row) only where no promise with the id is stored; a read at that instant finds
    none, as the coroutine's earlier read did — and it was right about every earlier database too -/
theorem creation_read_stable (d : Dialect) (db1 db2 db3 : Db) (hm : PromMono db1 db2) (c : CreatePromiseCmd) (n : Nat) (hn : n ≠ 0)
    (hw : db2.exec (defs d) (.createPromise c) = .ok (db3, .rows n)) :
    db2.exec (defs d) (.readPromise { id := c.id }) = .ok (db2, .promises []) ∧
    db1.exec (defs d) (.readPromise { id := c.id }) = .ok (db1, .promises []) := by
  have h2 := read_stable_until_creation d db2 db3 c n hn hw
  refine ⟨h2, ?_⟩
  apply read_misses
  apply absent_now_absent_before hm
  intro r hr he
  have := C16.createPromise_present (d := d) db2 c ⟨r, hr, he⟩
  rw [this] at hw
  injection hw with hw; injection hw with _ h; injection h with h
  exact hn h.symm

/-- **registration.** The registration is inserted only where the awaited promise is pending; the promise returned with the
    `201` (read earlier) is the promise as it stands at the instant of the insert -/
theorem registration_read_stable (d : Dialect) (db1 db2 db3 : Db) (hm : PromMono db1 db2) (hk2 : PromIds db2)
    (x : PromiseRow) (hx : x ∈ db1.promises) (c : CreateCallbackCmd) (hid : c.promiseId = x.id)
    (hw : db2.exec (defs d) (.createCallback c) = .ok (db3, .rows 1)) :
    db2.exec (defs d) (.readPromise { id := x.id }) = .ok (db2, .promises [promiseSelect_proj x]) :=
  registration_sees_current_promise d db1 db2 db3 hm hk2 x hx c hid hw

/-- the creation command of a `CreatePromise` request whose read was answered at clock `t` -/
def createCmdOf (req : CreatePromiseReq) (t : Time) : CreatePromiseCmd :=
  { id := req.id, param := req.param, timeout := req.timeout, idempotencyKey := req.idempotencyKey, tags := req.tags, createdOn := t }

/-- a promise (or promise + task) insert that reports a created promise found no promise with that id -/
theorem created_means_absent (d : Dialect) (db2 db3 : Db) (pc : CreatePromiseCmd) (ft : Option CreateTaskCmd) (r : Res)
    (hw : db2.exec (defs d) (childCmd pc ft) = .ok (db3, r)) (hr : r = .rows 1 ∨ r = .rows2 1 1) :
    ∀ x ∈ db2.promises, x.id ≠ pc.id := by
  intro x hx he
  have hex : ∃ r ∈ db2.promises, r.id = pc.id := ⟨x, hx, he⟩
  cases ft with
  | none =>
    have := C16.createPromise_present (d := d) db2 pc hex
    simp only [childCmd] at hw
    rw [this] at hw
    injection hw with hw; injection hw with _ h
    rcases hr with hr | hr <;> (rw [hr] at h; cases h)
  | some tc =>
    simp only [childCmd, Db.exec] at hw
    have hany : db2.promises.any (fun r => r.id == pc.id) = true := by
      rw [List.any_eq_true]; exact ⟨x, hx, by simp [he]⟩
    simp only [Db.createPromise, hany, if_true] at hw
    simp at hw
    rcases hr with hr | hr <;> (rw [hr] at hw; simp at hw)

/-- **creation.** The coroutine read "no such promise" in `db1`, asked the router, and its insert — the promise, together with
    its invocation task when the router matched — is applied in `db2` and reports a created promise.  The read repeated at
    `db2` still finds none (`created_means_absent`), the router is a function of the promise, so the request is linearized at
    its insert: `201`, the promise as created, and the effect of the single-threaded server on `db2`. -/
theorem creation_linearizable (d : Dialect) (route : Promise → Cpl) (req : CreatePromiseReq) (t : Time) (db2 db3 : Db) (r : Res)
    (hroute : routeFailed (route (promiseOfCreate (createCmdOf req t))) = false)
    (hw : db2.exec (defs d) (childCmd (createCmdOf req t) (childTask (createCmdOf req t) none (routeOf (route (promiseOfCreate (createCmdOf req t))))))
            = .ok (db3, r))
    (hr : r = .rows 1 ∨ r = .rows2 1 1) (fuel : Nat) :
    seqRun (defs d) route (createPromise req) t (fuel + 4) db2 (createPromise req t) =
      (db3, some (.promise S_CREATED (some (promiseOfCreate (createCmdOf req t))))) := by
  have habs := created_means_absent d db2 db3 _ _ r hw hr
  have hread : db2.execTx (defs d) [.readPromise { id := req.id }] = .ok (db2, [.promises []]) := by
    simp only [Db.execTx, read_misses d db2 req.id habs]
  simp only [createCmdOf] at hroute hw ⊢
  have hwtx := hw
  replace hwtx : db2.execTx (defs d) [childCmd { id := req.id, param := req.param, timeout := req.timeout, idempotencyKey := req.idempotencyKey, tags := req.tags, createdOn := t } (childTask { id := req.id, param := req.param, timeout := req.timeout, idempotencyKey := req.idempotencyKey, tags := req.tags, createdOn := t } none (routeOf (route (promiseOfCreate { id := req.id, param := req.param, timeout := req.timeout, idempotencyKey := req.idempotencyKey, tags := req.tags, createdOn := t }))))] = .ok (db3, [r]) := by
    simp [Db.execTx, hwtx]
  simp only [createPromise, createPromiseInner, seqRun, answerAll, hread, readPromiseRow]
  simp only [createPromiseChild, seqRun, answerAll, hroute, Bool.false_eq_true, if_false, Option.isSome_none, Bool.false_and]
  simp only [childStore, seqRun, answerAll, hwtx]
  rcases hr with hr | hr <;> subst hr <;> simp [seqRun, errResp]

/-- **creation with its task (CreatePromiseAndTask).** As `creation_linearizable`, for the request that brings its own (claimed) task:
    the router must match, the promise and the task — the request's task command with the router's receiver — are written by ONE
    command in `db2`, and the answer carries both.  Linearized at that insert. -/
theorem creation_with_task_linearizable (d : Dialect) (route : Promise → Cpl) (req : CreatePromiseReq) (tc : CreateTaskCmd) (t0 t : Time)
    (db2 db3 : Db) (recv : String)
    (hroute : route (promiseOfCreate (createCmdOf req t)) = .router true recv)
    (hw : db2.exec (defs d) (.createPromiseAndTask { promiseCommand := createCmdOf req t, taskCommand := { tc with recv := recv } }) = .ok (db3, .rows2 1 1))
    (fuel : Nat) :
    seqRun (defs d) route (createPromiseInner req (some tc) true) t (fuel + 4) db2 (createPromiseInner req (some tc) true t0) =
      (db3, some (.promiseTask S_CREATED (some (promiseOfCreate (createCmdOf req t)))
        (some { id := tc.id, counter := 1, timeout := tc.timeout, processId := tc.processId, state := tc.state, rootPromiseId := req.id,
                recv := recv, mesg := tc.mesg, attempt := 0, ttl := tc.ttl, expiresAt := tc.expiresAt, createdOn := some tc.createdOn, completedOn := none }))) := by
  have habs := created_means_absent d db2 db3 (createCmdOf req t) (some { tc with recv := recv }) (.rows2 1 1) hw (.inr rfl)
  have hread : db2.execTx (defs d) [.readPromise { id := req.id }] = .ok (db2, [.promises []]) := by
    simp only [Db.execTx, read_misses d db2 req.id habs]
  simp only [createCmdOf] at hroute hw ⊢
  have hwtx : db2.execTx (defs d) [.createPromiseAndTask { promiseCommand := { id := req.id, param := req.param, timeout := req.timeout, idempotencyKey := req.idempotencyKey, tags := req.tags, createdOn := t }, taskCommand := { tc with recv := recv } }] = .ok (db3, [.rows2 1 1]) := by
    simp [Db.execTx, hw]
  simp only [createPromiseInner, seqRun, answerAll, hread, readPromiseRow]
  simp only [createPromiseChild, seqRun, answerAll, hroute, routeFailed, routeOf, Bool.false_eq_true, if_false, Option.isSome_some, Option.isNone_some, Bool.and_false]
  simp only [childStore, childTask, childCmd, seqRun, answerAll, hwtx]
  simp [seqRun, promiseOfCreate]

/-- **registration (callback / subscription).** The coroutine read the pending promise `x` in `db1`; its guarded insert is
    applied (one row) in `db2`, whatever happened in between.  The read repeated at `db2` answers the same row
    (`registration_read_stable`), so the request is linearized at its insert: `201`, the promise as it stands at that
    instant, the registration, and the effect of the single-threaded server on `db2`. -/
theorem registration_linearizable (d : Dialect) (route : Promise → Cpl) (pid cb recv : String) (m : Mesg) (to : Int) (t : Time)
    (db1 db2 db3 : Db) (hm : PromMono db1 db2) (hk2 : PromIds db2) (x : PromiseRow) (hx : x ∈ db1.promises) (hid : x.id = pid)
    (hpend : ((promiseSelect_proj x).toPromise.state == P_PENDING) = true)
    (hw : db2.exec (defs d) (.createCallback { id := cb, promiseId := pid, recv := recv, mesg := m, timeout := to, createdOn := t }) = .ok (db3, .rows 1))
    (fuel : Nat) :
    seqRun (defs d) route (fun _ => registerCallback pid cb recv m to) t (fuel + 3) db2 (registerCallback pid cb recv m to) =
      (db3, some (.callback S_CREATED (some (promiseSelect_proj x).toPromise)
        (some { id := cb, promiseId := pid, recv := recv, mesg := m, timeout := to, createdOn := t }))) := by
  have hst := registration_read_stable d db1 db2 db3 hm hk2 x hx _ (by exact hid.symm) hw
  have hread : db2.execTx (defs d) [.readPromise { id := pid }] = .ok (db2, [.promises [promiseSelect_proj x]]) := by
    simp only [Db.execTx, ← hid, hst]
  have hwtx : db2.execTx (defs d) [.createCallback { id := cb, promiseId := pid, recv := recv, mesg := m, timeout := to, createdOn := t }] = .ok (db3, [.rows 1]) := by
    simp [Db.execTx, hw]
  simp only [registerCallback, seqRun, answerAll, hread, readPromiseRow, hpend, if_true, hwtx]
  rfl

/-- the response a task completion gives from the row it read -/
def completedTaskOf (r : TaskRow) (t : Time) : Task :=
  { (taskSelect_proj r).toTask with processId := none, state := T_COMPLETED, attempt := 0, ttl := 0, expiresAt := 0, completedOn := some t }

/-- the response does not depend on WHEN the task row was read while the task stayed the same claim: identity fields never change
    (`TaskRowLe`), the counter is the one the guard fixes, and every other field is overwritten by the completion -/
theorem completedTaskOf_stable (x y : TaskRow) (t : Time) (hle : TaskRowLe x y) (hc : x.counter = y.counter) :
    completedTaskOf x t = completedTaskOf y t := by
  obtain ⟨h1, _, h3, h4, h5, h6, h7, _, _⟩ := hle
  simp [completedTaskOf, taskSelect_proj, TaskRow.toTask, h1, h3, h4, h5, h6, h7, hc]

/-- **task completion.** The coroutine read the claimed task `x` (counter `c`) earlier; its guarded update (claimed, counter `c`) is
    applied in `db2`, where the task's row is `y` — the same task later (`TaskRowLe x y`, e.g. a heartbeat moved its lease), still
    claimed under `c` since the guard matched.  The request is linearized at that write: the single-threaded server on `db2`
    gives the same `201` with the same task and leaves the same database. -/
theorem task_completion_linearizable (d : Dialect) (route : Promise → Cpl) (id : String) (counter : Int) (t : Time) (db2 db3 : Db)
    (x y : TaskRow) (hle : TaskRowLe x y) (hy : db2.tasks.filter (fun r => r.id == id) = [y])
    (hxc : x.counter = counter) (hys : y.state = T_CLAIMED) (hyc : y.counter = counter)
    (hw : db2.exec (defs d) (.updateTask { id := id, processId := none, state := T_COMPLETED, counter := counter, attempt := 0, ttl := 0, expiresAt := 0, completedOn := some t, currentStates := [T_CLAIMED], currentCounter := counter }) = .ok (db3, .rows 1))
    (fuel : Nat) :
    seqRun (defs d) route (completeTask id counter) t (fuel + 3) db2 (completeTask id counter t) =
      (db3, some (.task S_CREATED (some (completedTaskOf x t)))) := by
  rw [completedTaskOf_stable x y t hle (hxc.trans hyc.symm)]
  have hread : db2.execTx (defs d) [.readTask { id := id }] = .ok (db2, [.tasks [taskSelect_proj y]]) := by
    have hy' : db2.tasks.filter (taskSelect_where { id := id }) = [y] := hy
    simp only [Db.execTx, Db.exec, defs]
    rw [hy']
    rfl
  have hwtx : db2.execTx (defs d) [.updateTask { id := id, processId := none, state := T_COMPLETED, counter := counter, attempt := 0, ttl := 0, expiresAt := 0, completedOn := some t, currentStates := [T_CLAIMED], currentCounter := counter }] = .ok (db3, [.rows 1]) := by
    simp [Db.execTx, hw]
  have h1 : ((taskSelect_proj y).toTask.state == T_COMPLETED || (taskSelect_proj y).toTask.state == T_TIMEDOUT) = false := by
    simp [taskSelect_proj, TaskRow.toTask, hys, T_CLAIMED, T_COMPLETED, T_TIMEDOUT]
  have h2 : ((taskSelect_proj y).toTask.state == T_INIT || (taskSelect_proj y).toTask.state == T_ENQUEUED) = false := by
    simp [taskSelect_proj, TaskRow.toTask, hys, T_CLAIMED, T_INIT, T_ENQUEUED]
  have h3 : ((taskSelect_proj y).toTask.counter != counter) = false := by
    simp [taskSelect_proj, TaskRow.toTask, hyc]
  simp only [completeTask, seqRun, answerAll, hread, readTaskRow, h1, h2, h3, Bool.false_eq_true, if_false, hwtx]
  simp [seqRun, completedTaskOf]

/-- the insert a schedule creation submits at clock `t`, and the schedule it answers with -/
def schedCmd (req : CreateScheduleReq) (next : Int) (t : Time) : CreateScheduleCmd :=
  { id := req.id, description := req.description, cron := req.cron, tags := req.tags, promiseId := req.promiseId, promiseTimeout := req.promiseTimeout, promiseParam := req.promiseParam, promiseTags := req.promiseTags, nextRunTime := next, idempotencyKey := req.idempotencyKey, createdOn := t }
def schedOf (req : CreateScheduleReq) (next : Int) (t : Time) : Schedule :=
  { id := req.id, description := req.description, cron := req.cron, tags := req.tags, promiseId := req.promiseId, promiseTimeout := req.promiseTimeout, promiseParam := req.promiseParam, promiseTags := req.promiseTags, lastRunTime := none, nextRunTime := next, idempotencyKey := req.idempotencyKey, createdOn := t }

/-- **schedule creation.** The insert is applied (one row) only where no schedule with the id is stored, so the read repeated
    at that instant answers "none" as the coroutine's earlier read did, whatever happened in between; the request is
    linearized at its insert: the concurrent execution ends with the answer (`201` and the schedule with its first run
    computed from the creation time) and the effect of the single-threaded server on the database of the insert -/
theorem schedule_creation_linearizable (d : Dialect) (env : Env) (route : Promise → Cpl) (req : CreateScheduleReq) (t : Time)
    (db2 db3 : Db) (next : Int) (hn : env.cronNext req.cron t = some next)
    (hw : db2.exec (defs d) (.createSchedule (schedCmd req next t)) = .ok (db3, .rows 1)) (fuel : Nat) :
    seqRun (defs d) route (createSchedule env req) t (fuel + 3) db2 (createSchedule env req t) =
      (db3, some (.schedule S_CREATED (some (schedOf req next t)))) := by
  -- no schedule with this id is stored where the insert took effect
  have habs : ∀ r ∈ db2.schedules, ¬ r.id = req.id := by
    simp only [Db.exec] at hw
    split at hw
    · injection hw with hw; injection hw with _ h; injection h with h; cases h
    · rename_i hany; simpa [schedCmd] using hany
  have hfil : db2.schedules.filter (scheduleSelect_where { id := req.id }) = [] := by
    rw [List.filter_eq_nil_iff]
    intro r hr
    simpa [scheduleSelect_where] using habs r hr
  have hread : db2.execTx (defs d) [.readSchedule { id := req.id }] = .ok (db2, [.schedules []]) := by
    simp only [Db.execTx, Db.exec, defs]
    rw [hfil]
    rfl
  have hwtx : db2.execTx (defs d) [.createSchedule (schedCmd req next t)] = .ok (db3, [.rows 1]) := by
    simp [Db.execTx, hw]
  have hnext : (createSchedule env req t).next t [.store [.schedules []]] =
      .yield [.store [.createSchedule (schedCmd req next t)]] (fun _ cpls2 =>
          match cpls2 with
          | [.err] => errResp S_AIO_STORE
          | [.store [.rows n]] =>
            if n > 1 then .panic "createSchedule: result must return 0 or 1 rows"
            else if n == 1 then .done (some (.schedule S_CREATED (some (schedOf req next t))))
            else .retry
          | _ => .panic "createSchedule: malformed completion") := by
    simp only [createSchedule, Co.next, readScheduleRow, hn]
    rfl
  exact two_step_collapse (defs d) route (createSchedule env req) t [.readSchedule { id := req.id }] _ _ _ db2 db3 _ _ _ rfl hread
    (by simpa [Co.next, createSchedule] using hnext) hwtx rfl fuel

/-! ### no answer reflects a state that never existed, or an effect that is later undone -/

/-- every store result a coroutine is resumed with is the result of executing ITS transaction on a database that existed
    (C06.store_completion_is_truthful), and what it wrote is never undone (PromMono over every continuation of the run) -/
theorem answers_come_from_real_states (R : Db → Db → Prop) (hr : ∀ db, R db db) (ht : ∀ a b c, R a b → R b c → R a c)
    (s : Sys) (htx : ∀ db db' cs rs, db.execTx s.g cs = .ok (db', rs) → R db db')
    (items : List (SubId × FailMode)) (id : SubId) (rs : List Res)
    (hin : (id, Cpl.store rs) ∈ (s.execStore items).1.cq) (hnew : (id, Cpl.store rs) ∉ s.cq) :
    ∃ tx, (id, Subm.store tx) ∈ s.pending ∧
      ∃ dbi dbi', R s.db dbi ∧ dbi.execTx s.g tx = .ok (dbi', rs) ∧ R dbi' (s.execStore items).1.db :=
  C06.store_completion_is_truthful R hr ht s htx items id rs hin hnew

/-! ### non-vacuity -/

/-- the sequential server completes a pending promise: 201 and the row is resolved (build-time test of the executable spec) -/
private def demoReq : CompletePromiseReq := { id := "a", idempotencyKey := none, strict := false, state := 2, value := {} }
private def demoOut := seqRun (defs .sqlite) (fun _ => .err) (completePromise demoReq) 5 10 { promises := [C01.exRow], seqP := 1 } (completePromise demoReq 5)
#guard (demoOut.2.map fun r => match r with | .promise s _ => s | _ => 0) == some S_CREATED
#guard demoOut.1.promises.map (·.state) == [2]

end Resonate.C02
