/-
  Properties/C07.lean — a task has at most one holder; stale holders are fenced; leases are what the
  sweep respects.  Store level, both dialects — and (last section) in every reachable state of the kernel model.
-/
import Resonate.Proofs.TaskInv
import Resonate.Proofs.TaskRun
import Resonate.Model.Coroutines
namespace Resonate.C07
open Resonate SqlSpec

variable (d : Dialect)

/-- **Any well-formed transaction** (the only kind the coroutines yield, Proofs/Wf.lean) keeps every task,
    its identity fields, never lowers its (counter, phase) rank and never touches a finished task. -/
theorem wf_transaction (cs : List Cmd) (db db' : Db) (rs : List Res) (hw : wfCmds cs = true)
    (h : db.execTx (defs d) cs = .ok (db', rs)) : TaskMono db db' := taskMono_wfCmds d cs db db' rs hw h

theorem wf_transactions : ∀ (txs : List (List Cmd)) (db db' : Db) (rss : List (List Res)), (∀ tx ∈ txs, wfCmds tx = true) →
    db.execTxs (defs d) txs = .ok (db', rss) → TaskMono db db' := by
  intro txs
  induction txs with
  | nil => intro db db' rss _ h; simp [Db.execTxs] at h; rw [← h.1]; exact TaskMono.refl _
  | cons tx txs ih =>
    intro db db' rss hw h
    simp only [Db.execTxs] at h
    split at h
    · cases h
    · cases h1 : db.execTx (defs d) tx with
      | error e => simp [h1] at h
      | ok p =>
        obtain ⟨db1, rs⟩ := p
        simp only [h1] at h
        cases h2 : db1.execTxs (defs d) txs with
        | error e => simp [h2] at h
        | ok q =>
          obtain ⟨db2, rss2⟩ := q
          simp only [h2] at h
          injection h with h; injection h with hd _
          subst hd
          exact (taskMono_wfCmds d tx db db1 rs (hw tx (List.mem_cons_self ..)) h1).trans
            (ih db1 db2 rss2 (fun x hx => hw x (List.mem_cons_of_mem _ hx)) h2)

/-- any sequence of batches of well-formed transactions, each committed or rolled back as a whole -/
theorem wf_batches : ∀ (bs : List (List (List Cmd))) (db : Db), (∀ b ∈ bs, ∀ tx ∈ b, wfCmds tx = true) →
    TaskMono db (db.execBatches (defs d) bs) := by
  intro bs
  induction bs with
  | nil => intro db _; exact TaskMono.refl _
  | cons b bs ih =>
    intro db hw
    simp only [Db.execBatches, List.foldl_cons]
    have h1 : TaskMono db (db.execBatch (defs d) b).1 := by
      unfold Db.execBatch
      cases hx : db.execTxs (defs d) b with
      | error e => exact TaskMono.refl _
      | ok p => obtain ⟨db', rss⟩ := p; exact wf_transactions d b db db' rss (hw b (List.mem_cons_self ..)) hx
    exact h1.trans (ih _ (fun x hx => hw x (List.mem_cons_of_mem _ hx)))

/-! ### what `TaskMono` says -/

theorem task_persists {db db' : Db} (h : TaskMono db db') (i : Nat) (r : TaskRow) (hr : db.tasks[i]? = some r) :
    ∃ r', db'.tasks[i]? = some r' ∧ TaskRowLe r r' := by
  obtain ⟨l1, l2, he, hf⟩ := h
  obtain ⟨b, hb, hle⟩ := forall2_get hf i r hr
  exact ⟨b, by rw [he, List.getElem?_append_left (List.getElem?_eq_some_iff.mp hb).1]; exact hb, hle⟩

/-- counters never decrease -/
theorem counter_monotone {a b : TaskRow} (h : TaskRowLe a b) : a.counter ≤ b.counter := by
  rcases h.2.2.2.2.2.2.2.1 with h | h <;> omega

/-- finished tasks (completed / timed out) never become active again — they never change at all -/
theorem finished_is_final {a b : TaskRow} (h : TaskRowLe a b) (hf : a.state = 8 ∨ a.state = 16) : b = a :=
  h.2.2.2.2.2.2.2.2 (by unfold taskPhase; rcases hf with hf | hf <;> simp [hf])

/-- **Fencing.** Once a task is claimed with counter `c`, in no later state is it unclaimed with counter `c`:
    a second claim with that counter can never find its guard `state ∈ {init, enqueued} ∧ counter = c` true. -/
theorem no_second_claim_with_same_counter {a b : TaskRow} (h : TaskRowLe a b) (hc : a.state = 4) :
    ¬ (b.counter = a.counter ∧ taskPhase b.state = 0) := by
  intro ⟨hcnt, hph⟩
  rcases h.2.2.2.2.2.2.2.1 with hlt | ⟨_, hle⟩
  · omega
  · have : taskPhase a.state = 1 := by unfold taskPhase; simp [hc]
    omega

/-- when the counter moved on, a request carrying the old counter matches no guard (`counter = ?`) -/
theorem stale_counter_rejected (db db' : Db) (c : UpdateTaskCmd) (r : Res) (hne : c.currentStates ≠ [])
    (hstale : ∀ row ∈ db.tasks, row.id = c.id → row.counter ≠ c.currentCounter)
    (h : db.exec (defs d) (.updateTask c) = .ok (db', r)) : db'.tasks = db.tasks ∧ r = .rows 0 := by
  simp only [Db.exec] at h
  have : c.currentStates.isEmpty = false := by cases hc : c.currentStates <;> simp_all
  simp only [this] at h
  injection h with h; injection h with hdb hr
  have hnone : ∀ x ∈ db.tasks, (defs d).taskUpdate_where c x = false := by
    intro x hx
    simp only [defs, taskUpdate_where]
    by_cases hid : x.id = c.id
    · have := hstale x hx hid
      simp [hid, this]
    · simp [hid]
  exact ⟨by rw [← hdb]; exact updateWhere_of_none _ _ _ hnone, by rw [← hr]; congr 1; exact (countP_eq_zero _ _).mpr hnone⟩

/-- the update `ClaimTask` issues -/
def claimCmd (id pid : String) (counter attempt ttl exp : Int) : UpdateTaskCmd :=
  { id := id, processId := some pid, state := T_CLAIMED, counter := counter, attempt := attempt, ttl := ttl, expiresAt := exp, completedOn := none, currentStates := [T_INIT, T_ENQUEUED], currentCounter := counter }

/-- **A claim succeeds only on an unclaimed, unfinished task with the current counter**: if the claim's
    update reports a row, that row had the request's counter and a state matched by the guard {init, enqueued}
    (so not claimed = 4, completed = 8 or timed out = 16). -/
theorem claim_succeeds_only (db db' : Db) (id pid : String) (counter attempt ttl exp : Int) (n : Nat) (hn : 0 < n)
    (h : db.exec (defs d) (.updateTask (claimCmd id pid counter attempt ttl exp)) = .ok (db', .rows n)) :
    ∃ row ∈ db.tasks, row.id = id ∧ row.counter = counter ∧ row.state &&& 3 ≠ 0 ∧ row.state ≠ 4 ∧ row.state ≠ 8 ∧ row.state ≠ 16 := by
  simp only [Db.exec, claimCmd] at h
  simp only [List.isEmpty_cons, Bool.false_eq_true, if_false] at h
  injection h with h; injection h with _ hr
  injection hr with hr
  have : (db.tasks.filter ((defs d).taskUpdate_where (claimCmd id pid counter attempt ttl exp))) ≠ [] := by
    intro h0
    have : countP ((defs d).taskUpdate_where (claimCmd id pid counter attempt ttl exp)) db.tasks = 0 := by simp [countP, h0]
    simp only [claimCmd] at this
    omega
  obtain ⟨x, hx⟩ := List.exists_mem_of_ne_nil _ this
  have hxw := (List.mem_filter.mp hx).2
  simp only [defs, taskUpdate_where, claimCmd, Bool.and_eq_true, beq_iff_eq, bne_iff_ne, ne_eq] at hxw
  obtain ⟨⟨hid, hmask⟩, hcnt⟩ := hxw
  have hm : maskOf [T_INIT, T_ENQUEUED] = 3 := by decide
  rw [hm] at hmask
  refine ⟨x, (List.mem_filter.mp hx).1, hid, hcnt, hmask, ?_, ?_, ?_⟩ <;> (intro hs; rw [hs] at hmask; exact hmask (by decide))

/-- the claim command is well-formed, and so are the completion and the sweep / dispatch updates -/
theorem claimCmd_wf (id pid : String) (counter attempt ttl exp : Int) : wfUpdateTask (claimCmd id pid counter attempt ttl exp) = true := by
  simp [wfUpdateTask, claimCmd, taskStateActive, T_INIT, T_ENQUEUED, T_CLAIMED]

/-! ### leases: what the expiry sweep may select, and what a heartbeat does -/

/-- the sweep's read returns only tasks whose lease (or own timeout) has run out on the sweep's clock -/
theorem sweep_selects_only_expired (db : Db) (c : ReadTasksCmd) (rows : List TaskRow)
    (h : db.exec (defs d) (.readTasks c) = .ok (db, .tasks rows)) :
    ∀ r ∈ rows, ∃ r0 ∈ db.tasks, r0.id = r.id ∧ r0.counter = r.counter ∧ r0.state = r.state ∧ (r0.expiresAt ≤ c.time ∨ r0.timeout ≤ c.time) := by
  simp only [Db.exec] at h
  split at h
  · cases h
  · injection h with h; injection h with _ hr
    injection hr with hr
    intro r hrm
    rw [← hr] at hrm
    simp only [List.mem_map] at hrm
    obtain ⟨r0, hr0, rfl⟩ := hrm
    have h1 := mem_takeLimit _ _ _ hr0
    rw [List.mem_mergeSort, List.mem_filter] at h1
    obtain ⟨hm, hw⟩ := h1
    simp only [defs, taskSelectAll_where, Bool.and_eq_true, Bool.or_eq_true, decide_eq_true_eq] at hw
    exact ⟨r0, hm, rfl, rfl, rfl, hw.2⟩

/-- a heartbeat extends exactly the leases of the claimed tasks of that process, to `time + ttl`;
    nothing else changes (no holder change, no state change, no counter change) -/
theorem heartbeat_extends_own_leases (db db' : Db) (c : HeartbeatTasksCmd) (r : Res)
    (h : db.exec (defs d) (.heartbeatTasks c) = .ok (db', r)) :
    db'.tasks = db.tasks.map (fun t => if sqlEqO t.processId (some c.processId) && t.state == 4 then { t with expiresAt := c.time + t.ttl } else t) := by
  simp only [Db.exec] at h
  injection h with h; injection h with hdb _
  rw [← hdb]; rfl

/-- the sweep coroutine only ever updates tasks it has just read, guarded by exactly the state and the
    counter it read: re-init with `counter + 1` while the task's own timeout lies ahead, else timed out -/
theorem sweep_update_shape (t : Time) (r : TaskRow) :
    (if t < r.timeout then
      Cmd.updateTask { id := r.id, processId := none, state := T_INIT, counter := r.counter + 1, attempt := 0, ttl := 0, expiresAt := 0, completedOn := none, currentStates := [r.state], currentCounter := r.counter }
     else
      Cmd.updateTask { id := r.id, processId := none, state := T_TIMEDOUT, counter := r.counter, attempt := r.attempt, ttl := 0, expiresAt := 0, completedOn := some r.timeout, currentStates := [r.state], currentCounter := r.counter })
    = (if t < r.timeout then
      Cmd.updateTask { id := r.id, processId := none, state := 1, counter := r.counter + 1, attempt := 0, ttl := 0, expiresAt := 0, completedOn := none, currentStates := [r.state], currentCounter := r.counter }
     else
      Cmd.updateTask { id := r.id, processId := none, state := 16, counter := r.counter, attempt := r.attempt, ttl := 0, expiresAt := 0, completedOn := some r.timeout, currentStates := [r.state], currentCounter := r.counter }) := rfl

/-! ### every run of the server -/

/-- **Between ANY two states along ANY run** of the kernel model — any requests (of all 17 kinds, passing the front ends'
    state validation), ticks, completion batches, store batches of any composition and order with injected failures,
    router / sender outcomes, any queue / batch / pool sizes, shutdown, crashes and restarts — from a database whose task
    states are legal: the task table has only moved forward (`TaskMono`).  Spelled out by the lemmas above: no task
    disappears or changes identity (`task_persists`), counters never decrease (`counter_monotone`), a completed or
    timed-out task never changes again (`finished_is_final`), and a task claimed under counter `c` is never again
    claimable under `c` (`no_second_claim_with_same_counter`): a stale holder is fenced in every execution.
    What carries it (Proofs/AllYieldsT.lean, Proofs/WInv.lean, Proofs/TaskRun.lean): every `UpdateTask` any of the 22
    coroutines can yield is disciplined (`wfUpdateTask`) — for the lease sweep, which guards by the state it read,
    because every task row a store result carries has a legal state, an invariant of the run itself. -/
theorem fencing_every_run (env : Env) (db0 : Db) (h0 : LegalTasks db0) (cs1 cs2 : List Choice)
    (h1 : ∀ c ∈ cs1, WInv.ChoiceOk LegalCpl c) (h2 : ∀ c ∈ cs2, WInv.ChoiceOk LegalCpl c) :
    TaskMono ((Sys.boot env d (defs d) db0).run cs1).db ((Sys.boot env d (defs d) db0).run (cs1 ++ cs2)).db :=
  task_discipline_between d env db0 h0 cs1 cs2 h1 h2

/-- a task that is completed or timed out in some reachable state (e.g. completed together with its promise, C08.finished_together)
    is the very same row in every later state of every continuation of the run: it can never be claimed again -/
theorem finished_task_is_final_every_run (env : Env) (db0 : Db) (h0 : LegalTasks db0) (cs1 cs2 : List Choice)
    (h1 : ∀ c ∈ cs1, WInv.ChoiceOk LegalCpl c) (h2 : ∀ c ∈ cs2, WInv.ChoiceOk LegalCpl c)
    (i : Nat) (r : TaskRow) (hr : ((Sys.boot env d (defs d) db0).run cs1).db.tasks[i]? = some r) (hf : r.state = 8 ∨ r.state = 16) :
    ((Sys.boot env d (defs d) db0).run (cs1 ++ cs2)).db.tasks[i]? = some r := by
  obtain ⟨r', hr', hle⟩ := task_persists (fencing_every_run d env db0 h0 cs1 cs2 h1 h2) i r hr
  rw [hr', finished_is_final hle hf]

/-- … and every stored task is, in every reachable state, in one of the five states the store writes -/
theorem legal_states_every_run (env : Env) (db0 : Db) (h0 : LegalTasks db0) (cs : List Choice)
    (h : ∀ c ∈ cs, WInv.ChoiceOk LegalCpl c) : LegalTasks ((Sys.boot env d (defs d) db0).run cs).db :=
  (task_discipline_every_run d env db0 h0 cs h).db.1

/-- the hypothesis on the run is satisfiable by a run that does something: a claim, ticks, a store batch, a transport outcome -/
example : ∀ c ∈ [Choice.submit "r1" (.claimTask { id := "t", counter := 1, processId := "w", ttl := 5 }), .tick 1,
    .execStore [(⟨"r1", 0⟩, .ok)], .tick 2, .complete ⟨"EnqueueTasks:1", 1⟩ (.sender true), .crash], WInv.ChoiceOk LegalCpl c := by
  intro c hc
  simp only [List.mem_cons, List.not_mem_nil, or_false] at hc
  rcases hc with rfl | rfl | rfl | rfl | rfl | rfl <;> simp [WInv.ChoiceOk, Req.StateOk, LegalCpl]

/-! ### non-vacuity -/
def exTask : TaskRow := { id := "t", sortId := 1, processId := some "w", state := 4, rootPromiseId := "p", recv := "x", mesg := ⟨"invoke", "p", "p"⟩, timeout := 100, counter := 3, attempt := 0, ttl := 5, expiresAt := 20, createdOn := some 0, completedOn := none }
example : TaskRowLe exTask { exTask with state := 1, counter := 4, processId := none } := by
  refine ⟨rfl, rfl, rfl, rfl, rfl, rfl, rfl, Or.inl (by decide), ?_⟩
  intro h; simp [taskPhase, exTask] at h
example : wfUpdateTask (claimCmd "t" "w" 3 0 5 20) = true := claimCmd_wf ..

end Resonate.C07
