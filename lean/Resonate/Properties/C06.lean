/-
  Properties/C06.lean — acknowledged writes are durable; requests are all-or-nothing across crashes.

  In the kernel model (Model/System.lean) a crash drops every volatile thing — coroutines, queues, pending
  submissions, undelivered completions — and keeps the database; `Sys.step .crash` is tied to the real
  system by sysdiff (crash = a new system.System + store object on the same sqlite file) and by `crashdiff`
  (the real `resonate serve` binary killed with SIGKILL and restarted on the same file).  What a committed sqlite
  transaction survives (power loss, fsync) is sqlite's and outside the model.
-/
import Resonate.Properties.C01
import Resonate.Properties.C05
import Resonate.Properties.C08
import Resonate.Properties.C16
namespace Resonate.C06
open SqlSpec Coro

/-! ### a crash is a restart on the stored state, and nothing else -/

theorem crash_keeps_database (s : Sys) : (s.step .crash).1.db = s.db := rfl

/-- after a crash the server is exactly a freshly started server on the same database: nothing but the
    database influences what happens next (background processing resumes from the stored state) -/
theorem crash_is_restart (s : Sys) :
    (s.step .crash).1 = { (Sys.boot s.env s.d s.g s.db) with bgEnabled := s.bgEnabled } ∧ (s.step .crash).2 = [] := ⟨rfl, rfl⟩

theorem recovery_is_a_fresh_start (s : Sys) (cs : List Choice) :
    s.run (.crash :: cs) = ({ (Sys.boot s.env s.d s.g s.db) with bgEnabled := s.bgEnabled } : Sys).run cs := rfl

/-- repeated crashes during recovery change nothing either -/
theorem crash_idempotent (s : Sys) : ((s.step .crash).1.step .crash).1 = (s.step .crash).1 := rfl

/-! ### what is committed stays, across any continuation with any number of crashes -/

/-- promises: whatever the run does after a state — including crashes at any point, repeated — every promise
    that was stored is still stored with its creation fields, and a completed one is unchanged for ever -/
theorem committed_promises_survive (env : Env) (d : Dialect) (db0 : Db) (before after : List Choice) :
    PromMono ((Sys.boot env d (defs d) db0).run before).db ((Sys.boot env d (defs d) db0).run (before ++ after)).db :=
  C01.any_run env d db0 before after

/-- registrations: in every state reachable through any run with any crashes, every stored registration still
    awaits a stored, pending promise — a crash cannot leave a completed promise with unconverted registrations -/
theorem no_half_completed_promise (env : Env) (d : Dialect) (cs : List Choice) (hcs : ∀ c ∈ cs, c.Ok) :
    CbInv ((Sys.boot env d (defs d)).run cs).db := C05.no_registration_outlives_its_promise d env cs hcs

/-! ### the kernel reports a store result only for a transaction it executed, and the effect is in the database -/

theorem filterMap_all_some {α β} (f : α → Option β) : ∀ (l : List α), (∀ x ∈ l, (f x).isSome = true) →
    ∀ i : Nat, (l.filterMap f)[i]? = (l[i]?).bind f := by
  intro l
  induction l with
  | nil => intro _ i; simp
  | cons a l ih =>
    intro h i
    have ha := h a (by simp)
    cases hfa : f a with
    | none => simp [hfa] at ha
    | some b =>
      rw [List.filterMap_cons_some hfa]
      cases i with
      | zero => simp [hfa]
      | succ i => simpa using ih (fun x hx => h x (by simp [hx])) i

/-- inside one batch: the i-th result list is the result of running the i-th transaction on an intermediate
    database, and what it wrote is related to the final database of the batch by every relation that single
    transactions respect (e.g. `PromMono`: promises only accumulate and completed ones never change) -/
theorem execTxs_each (g : SqlDefs) (R : Db → Db → Prop) (hr : ∀ db, R db db) (ht : ∀ a b c, R a b → R b c → R a c)
    (htx : ∀ db db' cs rs, db.execTx g cs = .ok (db', rs) → R db db') :
    ∀ (txs : List (List Cmd)) (db db' : Db) (rss : List (List Res)), db.execTxs g txs = .ok (db', rss) →
    ∀ (i : Nat) tx rs, txs[i]? = some tx → rss[i]? = some rs →
      ∃ dbi dbi', R db dbi ∧ dbi.execTx g tx = .ok (dbi', rs) ∧ R dbi' db' := by
  intro txs
  induction txs with
  | nil => intro db db' rss _ i tx rs h; simp at h
  | cons t txs ih =>
    intro db db' rss h i tx rs htx' hrs
    simp only [Db.execTxs] at h
    split at h
    · cases h
    · cases h1 : db.execTx g t with
      | error e => simp [h1] at h
      | ok p =>
        obtain ⟨db1, rs1⟩ := p
        simp only [h1] at h
        cases h2 : db1.execTxs g txs with
        | error e => simp [h2] at h
        | ok q =>
          obtain ⟨db2, rss2⟩ := q
          simp only [h2] at h
          injection h with h; injection h with hd hres
          subst hd; subst hres
          cases i with
          | zero =>
            simp only [List.getElem?_cons_zero, Option.some.injEq] at htx' hrs
            subst htx'; subst hrs
            exact ⟨db, db1, hr _, h1, execTxs_lift g R hr ht htx txs db1 db2 rss2 h2⟩
          | succ i =>
            simp only [List.getElem?_cons_succ] at htx' hrs
            obtain ⟨dbi, dbi', ha, hb, hc⟩ := ih db1 db2 rss2 h2 i tx rs htx' hrs
            exact ⟨dbi, dbi', ht _ _ _ (htx _ _ _ _ h1) ha, hb, hc⟩

/-! the pieces of `Sys.execStore`, named -/
def pendingTx (s : Sys) (id : SubId) : Option (List Cmd) :=
  match s.pending.find? (fun p => p.1 == id) with
  | some (_, .store tx) => some tx
  | _ => none
def validOf (s : Sys) (items : List (SubId × FailMode)) := items.filter fun it => (pendingTx s it.1).isSome
def processedOf (s : Sys) (items : List (SubId × FailMode)) := (validOf s items).filter fun it => it.2 != .before
def txsOf (s : Sys) (items : List (SubId × FailMode)) := (processedOf s items).filterMap fun it => pendingTx s it.1
def batchOf (s : Sys) (items : List (SubId × FailMode)) : Db × Except StoreErr (List (List Res)) :=
  if (txsOf s items).isEmpty then (s.db, Except.ok []) else s.db.execBatch s.g (txsOf s items)
def okResOf (s : Sys) (items : List (SubId × FailMode)) (rss : List (List Res)) : List (SubId × Cpl) :=
  ((processedOf s items).zip rss).map fun (it, rs) => (it.1, if it.2 == .after then Cpl.err else Cpl.store rs)
def completionsOf (s : Sys) (items : List (SubId × FailMode)) : List (SubId × Cpl) :=
  match (batchOf s items).2 with
  | .error _ => (validOf s items).map fun it => (it.1, Cpl.err)
  | .ok rss =>
    (validOf s items).map fun it =>
      if it.2 == .before then (it.1, Cpl.err)
      else match (okResOf s items rss).find? (fun x => x.1 == it.1) with
        | some x => x
        | none => (it.1, Cpl.err)

theorem execStore_eq (s : Sys) (items : List (SubId × FailMode)) :
    s.execStore items =
      ({ s with db := (batchOf s items).1, pending := s.pending.filter (fun p => !((validOf s items).any fun it => it.1 == p.1)),
                cq := s.cq ++ completionsOf s items },
       match (batchOf s items).2 with | .error e => some e | .ok _ => none) := rfl

/-- **acknowledged ⇒ executed.** A store completion carrying results reaches a coroutine only if the kernel
    executed exactly the transaction that coroutine had submitted, on the database as it then was, and those are
    its results; what it wrote is related to the database after the batch by every relation transactions respect.
    (A failed batch, a failure injected before processing, or one after it, all complete with `err` instead.) -/
theorem store_completion_is_truthful (R : Db → Db → Prop) (hr : ∀ db, R db db) (ht : ∀ a b c, R a b → R b c → R a c)
    (s : Sys) (htx : ∀ db db' cs rs, db.execTx s.g cs = .ok (db', rs) → R db db')
    (items : List (SubId × FailMode)) (id : SubId) (rs : List Res)
    (hin : (id, Cpl.store rs) ∈ (s.execStore items).1.cq) (hnew : (id, Cpl.store rs) ∉ s.cq) :
    ∃ tx, (id, Subm.store tx) ∈ s.pending ∧
      ∃ dbi dbi', R s.db dbi ∧ dbi.execTx s.g tx = .ok (dbi', rs) ∧ R dbi' (s.execStore items).1.db := by
  rw [execStore_eq] at hin ⊢
  simp only [List.mem_append] at hin ⊢
  rcases hin with hin | hin
  · exact absurd hin hnew
  · have hallsome : ∀ it ∈ processedOf s items, (pendingTx s it.1).isSome = true := by
      intro it hit
      have := (List.mem_filter.mp hit).1
      exact (List.mem_filter.mp this).2
    unfold completionsOf at hin
    cases hb : batchOf s items with
    | mk db' r =>
      rw [hb] at hin
      cases r with
      | error e =>
        simp only [List.mem_map] at hin
        obtain ⟨it, _, hit⟩ := hin
        cases hit
      | ok rss =>
        simp only [List.mem_map] at hin
        obtain ⟨it, _, hit⟩ := hin
        split at hit
        · cases hit
        · split at hit
          · rename_i x hx
            have hxm := List.mem_of_find?_eq_some hx
            unfold okResOf at hxm
            simp only [List.mem_map] at hxm
            obtain ⟨⟨it', rs'⟩, hz, hx'⟩ := hxm
            simp only at hx'
            rw [← hx'] at hit
            split at hit
            · cases hit
            · injection hit with hid hcpl
              injection hcpl with hcpl
              subst hcpl
              obtain ⟨i, hi⟩ := List.getElem?_of_mem hz
              rw [List.getElem?_zip_eq_some] at hi
              obtain ⟨hp, hrss⟩ := hi
              have htxi : (txsOf s items)[i]? = pendingTx s it'.1 := by
                unfold txsOf
                rw [filterMap_all_some _ (processedOf s items) hallsome i, hp]; rfl
              have hsome := hallsome it' (List.mem_of_getElem? hp)
              cases hf : pendingTx s it'.1 with
              | none => simp [hf] at hsome
              | some tx =>
                rw [hf] at htxi
                have hpend : (id, Subm.store tx) ∈ s.pending := by
                  unfold pendingTx at hf
                  split at hf
                  · rename_i sid tx' hfp
                    injection hf with hf; subst hf
                    have hm := List.mem_of_find?_eq_some hfp
                    have he := List.find?_some hfp
                    simp only [beq_iff_eq] at he
                    rw [← hid, ← he]; exact hm
                  · cases hf
                refine ⟨tx, hpend, ?_⟩
                have hne : (txsOf s items).isEmpty = false := by
                  cases hx3 : txsOf s items with
                  | nil => simp [hx3] at htxi
                  | cons _ _ => rfl
                unfold batchOf at hb
                simp only [hne, Bool.false_eq_true, if_false] at hb
                unfold Db.execBatch at hb
                cases hx2 : s.db.execTxs s.g (txsOf s items) with
                | error e => simp [hx2] at hb
                | ok q =>
                  obtain ⟨db2, rss2⟩ := q
                  simp only [hx2] at hb
                  injection hb with hdb hr2
                  injection hr2 with hr2
                  subst hdb; subst hr2
                  exact execTxs_each s.g R hr ht htx (txsOf s items) s.db db2 rss2 hx2 i tx rs' htxi hrss
          · injection hit with _ hcpl; cases hcpl

/-! ### an acknowledged creation / completion is in the database (and stays: `committed_promises_survive`) -/

/-- **create, acknowledged ⇒ stored.** If the coroutine answers a creation with `201` it was resumed with a result
    that reports one inserted row; and whenever the create command reports an inserted row, the database after that
    transaction holds the promise with exactly the requested id, parameter, timeout, tags, key and creation time. -/
theorem create_ack_needs_inserted_row (req : CreatePromiseReq) (t0 t t1 t2 : Time) (recv : String) (rs : List Res) (p : Option Promise)
    (h : ((((createPromise req t0).next t gotNone).next t1 [.router false recv]).next t2 [.store rs]) = .done (some (.promise S_CREATED p))) :
    rs = [.rows 1] ∨ rs = [.rows2 1 1] := by
  cases rs with
  | nil => simp [createPromise, createPromiseInner, Co.next, gotNone, readPromiseRow, createPromiseChild, routeFailed, routeOf, childTask, childStore] at h
  | cons r rest =>
    cases rest with
    | cons r2 rest2 => simp [createPromise, createPromiseInner, Co.next, gotNone, readPromiseRow, createPromiseChild, routeFailed, routeOf, childTask, childStore] at h
    | nil =>
      cases r with
      | rows n =>
        simp [createPromise, createPromiseInner, Co.next, gotNone, readPromiseRow, createPromiseChild, routeFailed, routeOf, childTask, childStore] at h
        left
        by_cases h1 : 1 < n
        · simp [h1] at h
        · by_cases h0 : n = 0
          · simp [h1, h0] at h
          · have : n = 1 := by omega
            subst this; rfl
      | rows2 a b =>
        simp [createPromise, createPromiseInner, Co.next, gotNone, readPromiseRow, createPromiseChild, routeFailed, routeOf, childTask, childStore] at h
        right
        by_cases h1 : 1 < a
        · simp [h1] at h
        · by_cases hb : b = a
          · by_cases h0 : a = 0
            · simp [h1, hb, h0] at h
            · have : a = 1 := by omega
              subst this; subst hb; rfl
          · simp [h1, hb] at h
      | _ => simp [createPromise, createPromiseInner, Co.next, gotNone, readPromiseRow, createPromiseChild, routeFailed, routeOf, childTask, childStore] at h

theorem created_row_is_stored (d : Dialect) (db db' : Db) (c : CreatePromiseCmd) (n : Nat)
    (h : db.exec (defs d) (.createPromise c) = .ok (db', .rows n)) (hn : n ≠ 0) :
    ∃ r ∈ db'.promises, r.id = c.id ∧ r.state = 1 ∧ r.paramData = c.param.data ∧ r.timeout = c.timeout ∧
      r.idempotencyKeyForCreate = c.idempotencyKey ∧ r.createdOn = some c.createdOn := by
  by_cases hex : ∃ r ∈ db.promises, r.id = c.id
  · have := C16.createPromise_present (d := d) db c hex
    rw [this] at h
    injection h with h; injection h with _ h; injection h with h
    exact absurd h.symm hn
  · have hab : ∀ r ∈ db.promises, r.id ≠ c.id := fun r hr he => hex ⟨r, hr, he⟩
    have := C16.createPromise_absent (d := d) db c hab
    rw [this] at h
    injection h with h; injection h with hdb _
    subst hdb
    refine ⟨(defs d).promiseInsert_row c (db.seqP + 1), by simp [defs], ?_⟩
    have hrow := C16.createPromise_row c (db.seqP + 1)
    exact ⟨hrow.1, hrow.2.1, hrow.2.2.2.1, hrow.2.2.2.2.1, hrow.2.2.2.2.2.1, hrow.2.2.2.2.2.2.2.1⟩

/-- **complete, acknowledged ⇒ stored.** The coroutine answers a completion with the `201` / lazy-time-out status
    only when the completion block reported exactly one updated promise row … -/
theorem complete_ack_needs_updated_row (c : Cpl) (h : completeOut c = .ok true) :
    ∃ n1 n2, c = .store [.rows 1, .rows n1, .rows n2, .rows n2] := by
  unfold completeOut at h
  split at h
  · rename_i n0 n1 n2 n3
    split at h
    · cases h
    · split at h
      · cases h
      · rename_i h1 h2
        injection h with h
        have h0 : n0 = 1 := by simpa using h
        have h23 : n2 = n3 := by simpa using h2
        subst h0; subst h23
        exact ⟨n1, n2, rfl⟩
  · cases h
  · cases h

/-- … and then the promise row, wherever it stood when the coroutine read it, carries the completion's state, value,
    key and time after the transaction — whatever other transactions ran in between (C01.own_completion_is_stored). -/
theorem completed_row_is_stored (d : Dialect) (db1 db2 db3 : Db) (hm : PromMono db1 db2) (hu : PromIds db2)
    (i : Nat) (r : PromiseRow) (hr : db1.promises[i]? = some r) (cmd : UpdatePromiseCmd) (hid : cmd.id = r.id)
    (hx : db2.exec (defs d) (.updatePromise cmd) = .ok (db3, .rows 1)) :
    db3.promises[i]? = some (promiseUpdate_set cmd r) :=
  C01.own_completion_is_stored d db1 db2 db3 hm hu i r hr cmd hid (.rows 1) hx rfl

/-! ### the other kinds: an acknowledged registration, lock, schedule is in the database -/

/-- **lock, acknowledged ⇒ stored.** `201` is answered only on a result reporting exactly one written row … -/
theorem lock_ack_needs_row (req : AcquireLockReq) (t0 t : Time) (cpls : List Cpl) (l : Option Lock)
    (h : (acquireLock req t0).next t cpls = .done (some (.lock S_CREATED l))) : cpls = [.store [.rows 1]] := by
  simp only [acquireLock, Co.next] at h
  split at h
  · simp [errResp] at h
  · rename_i n
    split at h
    · cases h
    · split at h
      · simp [S_CREATED, S_LOCK_ALREADY_ACQUIRED] at h
      · rename_i h1 h0
        have : n = 1 := by
          have h0' : n ≠ 0 := by simpa using h0
          omega
        subst this; rfl
  · cases h

/-- … and then the lock row with exactly the requested holder, process, ttl and expiry is in the database -/
theorem acquired_lock_is_stored (d : Dialect) (db db' : Db) (c : AcquireLockCmd) (n : Nat)
    (h : db.exec (defs d) (.acquireLock c) = .ok (db', .rows n)) (hn : n ≠ 0) :
    ∃ r ∈ db'.locks, r.resourceId = c.resourceId ∧ r.executionId = c.executionId ∧ r.processId = c.processId ∧
      r.ttl = c.ttl ∧ r.expiresAt = c.expiresAt := by
  simp only [Db.exec] at h
  split at h
  · injection h with h; injection h with hdb hr
    injection hr with hr
    subst hdb
    have hpos : 0 < countP (fun r => r.resourceId == ((defs d).lockAcquire_row c).resourceId && (defs d).lockAcquire_conflictWhere r ((defs d).lockAcquire_row c)) db.locks := by omega
    unfold countP at hpos
    obtain ⟨r, hr⟩ := List.exists_mem_of_length_pos hpos
    obtain ⟨hmem, hp⟩ := List.mem_filter.mp hr
    simp only [Bool.and_eq_true, beq_iff_eq] at hp
    refine ⟨(defs d).lockAcquire_conflictSet r ((defs d).lockAcquire_row c), ?_, ?_⟩
    · rw [mem_updateWhere]
      exact ⟨r, hmem, .inl ⟨by simp [hp.1, hp.2], rfl⟩⟩
    · have h2 : r.executionId = c.executionId := by simpa [defs, lockAcquire_conflictWhere, lockAcquire_row] using hp.2
      exact ⟨by simpa [defs, lockAcquire_conflictSet, lockAcquire_row] using hp.1, by simpa [defs, lockAcquire_conflictSet] using h2, rfl, rfl, rfl⟩
  · injection h with h; injection h with hdb _
    subst hdb
    exact ⟨(defs d).lockAcquire_row c, by simp, rfl, rfl, rfl, rfl, rfl⟩

/-- **schedule, acknowledged ⇒ stored.** -/
theorem schedule_ack_needs_row (env : Env) (req : CreateScheduleReq) (t0 t t2 : Time) (cpls2 : List Cpl) (sc : Option Schedule)
    (h : ((createSchedule env req t0).next t [.store [.schedules []]]).next t2 cpls2 = .done (some (.schedule S_CREATED sc))) :
    cpls2 = [.store [.rows 1]] := by
  simp only [createSchedule, Co.next, readScheduleRow] at h
  cases hc : env.cronNext req.cron t with
  | none => simp [hc, errResp, Co.next] at h
  | some next =>
    simp only [hc, Co.next] at h
    split at h
    · simp [errResp] at h
    · rename_i n
      split at h
      · cases h
      · split at h
        · rename_i h1
          have : n = 1 := by simpa using h1
          subst this; rfl
        · cases h
    · cases h

theorem created_schedule_is_stored (d : Dialect) (db db' : Db) (c : CreateScheduleCmd) (n : Nat)
    (h : db.exec (defs d) (.createSchedule c) = .ok (db', .rows n)) (hn : n ≠ 0) :
    ∃ r ∈ db'.schedules, r.id = c.id ∧ r.cron = c.cron ∧ r.promiseId = c.promiseId ∧ r.promiseTimeout = c.promiseTimeout ∧
      r.nextRunTime = c.nextRunTime ∧ r.lastRunTime = none ∧ r.idempotencyKey = c.idempotencyKey ∧ r.createdOn = c.createdOn := by
  simp only [Db.exec] at h
  split at h
  · injection h with h; injection h with _ hr
    injection hr with hr
    exact absurd hr.symm hn
  · injection h with h; injection h with hdb _
    subst hdb
    exact ⟨(defs d).scheduleInsert_row c (db.seqS + 1), by simp, rfl, rfl, rfl, rfl, rfl, rfl, rfl, rfl⟩

/-- **registration, acknowledged ⇒ stored.** A callback / subscription is answered `201` with the registration only
    on a result reporting one inserted row … -/
theorem registration_ack_needs_row (pid cb recv : String) (m : Mesg) (to : Int) (t t2 : Time) (r : PromiseRow) (cpls2 : List Cpl)
    (p : Option Promise) (c : Option Callback)
    (h : ((registerCallback pid cb recv m to).next t (gotRow r)).next t2 cpls2 = .done (some (.callback S_CREATED p c))) :
    cpls2 = [.store [.rows 1]] := by
  simp only [registerCallback, Co.next, gotRow, readPromiseRow] at h
  by_cases hp : (r.toPromise.state == P_PENDING) = true
  · simp only [hp, if_true, Co.next] at h
    split at h
    · simp [errResp] at h
    · rename_i n
      split at h
      · cases h
      · split at h
        · rename_i h1
          have : n = 1 := by simpa using h1
          subst this; rfl
        · cases h
    · cases h
  · simp [hp, Co.next, S_CREATED, S_OK] at h

/-- … and then the registration row, with the requested id, awaited promise, receiver and message, is in the database -/
theorem registered_callback_is_stored (d : Dialect) (db db' : Db) (c : CreateCallbackCmd) (n : Nat)
    (h : db.exec (defs d) (.createCallback c) = .ok (db', .rows n)) (hn : n ≠ 0) :
    ∃ r ∈ db'.callbacks, r.id = c.id ∧ r.promiseId = c.promiseId ∧ r.recv = c.recv ∧ r.mesg = c.mesg ∧ r.timeout = c.timeout := by
  simp only [Db.exec] at h
  split at h
  · injection h with h; injection h with hdb _
    subst hdb
    exact ⟨(defs d).callbackInsert_row c, by simp, rfl, rfl, rfl, rfl, rfl⟩
  · injection h with h; injection h with _ hr
    injection hr with hr
    exact absurd hr.symm hn

/-- **claim / task completion, acknowledged ⇒ stored.** A claim goes on to read the attached promises (and then
    answers `201`) only on a result reporting exactly one updated task row … -/
theorem claim_proceeds_only_on_row (env : Env) (req : ClaimTaskReq) (t0 t t2 : Time) (r : TaskRow) (cpls2 : List Cpl)
    (subs : List Subm) (k : Time → List Cpl → Co)
    (h : ((claimTask env req t0).next t [.store [.tasks [r]]]).next t2 cpls2 = .yield subs k) : cpls2 = [.store [.rows 1]] := by
  unfold claimTask at h
  split at h
  · simp [Co.next] at h
  · split at h
    · simp [Co.next] at h
    · simp only [Co.next, readTaskRow] at h
      by_cases h1 : (r.toTask.state == T_CLAIMED) = true
      · simp [h1, Co.next] at h
      · by_cases h2 : (r.toTask.state == T_COMPLETED || r.toTask.state == T_TIMEDOUT) = true
        · simp [h1, h2, Co.next] at h
        · by_cases h3 : (r.toTask.counter != req.counter) = true
          · simp [h1, h2, h3, Co.next] at h
          · simp only [h1, h2, h3, Bool.false_eq_true, if_false, Co.next] at h
            split at h
            · simp [errResp] at h
            · rename_i n
              split at h
              · cases h
              · split at h
                · cases h
                · rename_i hn1 hn0
                  have hn0' : n ≠ 0 := by simpa using hn0
                  have : n = 1 := by omega
                  subst this; rfl
            · cases h

/-- … and whenever a task update reports an updated row, the task row with that id carries the commanded state,
    holder, lease and counter after the transaction -/
theorem updated_task_is_stored (d : Dialect) (db db' : Db) (c : UpdateTaskCmd) (n : Nat)
    (h : db.exec (defs d) (.updateTask c) = .ok (db', .rows n)) (hn : n ≠ 0) :
    ∃ r ∈ db'.tasks, r.id = c.id ∧ r.state = c.state ∧ r.processId = c.processId ∧ r.ttl = c.ttl ∧
      r.expiresAt = c.expiresAt ∧ r.counter = c.counter ∧ r.completedOn = c.completedOn := by
  simp only [Db.exec] at h
  split at h
  · cases h
  · injection h with h; injection h with hdb hr
    injection hr with hr
    subst hdb
    have hpos : 0 < countP ((defs d).taskUpdate_where c) db.tasks := by omega
    unfold countP at hpos
    obtain ⟨r, hr⟩ := List.exists_mem_of_length_pos hpos
    obtain ⟨hmem, hp⟩ := List.mem_filter.mp hr
    refine ⟨(defs d).taskUpdate_set c r, ?_, ?_⟩
    · rw [mem_updateWhere]
      exact ⟨r, hmem, .inl ⟨hp, rfl⟩⟩
    · have hid : r.id = c.id := by
        simp only [defs, taskUpdate_where, Bool.and_eq_true, beq_iff_eq] at hp
        exact hp.1.1
      exact ⟨hid, rfl, rfl, rfl, rfl, rfl, rfl⟩

/-- **task completion, acknowledged ⇒ stored.** `201` is answered only on a result reporting exactly one updated row … -/
theorem task_completion_ack_needs_row (id : String) (counter : Int) (t0 t t2 : Time) (r : TaskRow) (cpls2 : List Cpl) (tk : Option Task)
    (h : ((completeTask id counter t0).next t [.store [.tasks [r]]]).next t2 cpls2 = .done (some (.task S_CREATED tk))) :
    cpls2 = [.store [.rows 1]] := by
  unfold completeTask at h
  simp only [Co.next, readTaskRow] at h
  by_cases h1 : (r.toTask.state == T_COMPLETED || r.toTask.state == T_TIMEDOUT) = true
  · simp [h1, Co.next] at h
    exact absurd h.1 (by decide)
  · by_cases h2 : (r.toTask.state == T_INIT || r.toTask.state == T_ENQUEUED) = true
    · simp [h1, h2, Co.next] at h
      exact absurd h.1 (by decide)
    · by_cases h3 : (r.toTask.counter != counter) = true
      · simp [h1, h2, h3, Co.next] at h
        exact absurd h.1 (by decide)
      · simp only [h1, h2, h3, Bool.false_eq_true, if_false, Co.next] at h
        split at h
        · simp [errResp] at h
        · rename_i n
          split at h
          · cases h
          · split at h
            · cases h
            · rename_i hn1 hn0
              have hn0' : n ≠ 0 := by simpa using hn0
              have : n = 1 := by omega
              subst this; rfl
        · cases h

/-- … the transaction it answers for is the guarded update to `completed` (claimed, same counter), so by
    `updated_task_is_stored` the task row is completed, holder and lease cleared, when the `201` is sent -/
theorem task_completion_submits (id : String) (counter : Int) (t0 t : Time) (r : TaskRow)
    (h1 : (r.toTask.state == T_COMPLETED || r.toTask.state == T_TIMEDOUT) = false)
    (h2 : (r.toTask.state == T_INIT || r.toTask.state == T_ENQUEUED) = false) (h3 : (r.toTask.counter != counter) = false) :
    ((completeTask id counter t0).next t [.store [.tasks [r]]]).subs =
      [.store [.updateTask { id := id, processId := none, state := T_COMPLETED, counter := counter, attempt := 0, ttl := 0, expiresAt := 0,
                             completedOn := some t, currentStates := [T_CLAIMED], currentCounter := counter }]] := by
  simp only [completeTask, Co.next, readTaskRow, h1, h2, h3, Bool.false_eq_true, if_false, Co.subs]

/-- **heartbeat, acknowledged ⇒ stored.** The count a heartbeat is answered with is the result of its one transaction … -/
theorem heartbeat_ack_is_the_result (pid : String) (t0 t : Time) (cpls : List Cpl) (n : Nat)
    (h : (heartbeatTasks pid t0).next t cpls = .done (some (.count S_OK n))) : cpls = [.store [.rows n]] := by
  unfold heartbeatTasks at h
  simp only [Co.next] at h
  split at h
  · simp [errResp] at h
  · rename_i m
    simp only [Co.done.injEq, Option.some.injEq, Resp.count.injEq, true_and] at h
    subst h; rfl
  · cases h

/-- … and that result counts exactly the tasks claimed by the process, each of which carries the renewed lease
    `heartbeat time + its ttl` after the transaction; no other task row changes -/
theorem heartbeat_rows_are_renewed (d : Dialect) (db db' : Db) (c : HeartbeatTasksCmd) (n : Nat)
    (h : db.exec (defs d) (.heartbeatTasks c) = .ok (db', .rows n)) :
    n = countP (fun r : TaskRow => sqlEqO r.processId (some c.processId) && r.state == 4) db.tasks ∧
    db'.tasks = db.tasks.map (fun r => if sqlEqO r.processId (some c.processId) && r.state == 4 then { r with expiresAt := c.time + r.ttl } else r) := by
  simp only [Db.exec] at h
  injection h with h; injection h with hdb hr
  injection hr with hr
  subst hdb
  exact ⟨hr.symm, rfl⟩

/-! ### all or nothing -/

/-- a creation writes the promise and, if it routes, its task in ONE command of ONE transaction -/
theorem creation_is_one_transaction (pc : CreatePromiseCmd) (ft : Option CreateTaskCmd) (k : ChildOut → Co) :
    (childStore pc ft [] k).subs = [.store [childCmd pc ft]] := C08.childStore_is_one_transaction pc ft k

/-- a completion updates the promise, finishes its tasks, turns every registration into a task and deletes the
    registrations in ONE transaction -/
theorem completion_is_one_transaction (cmd : UpdatePromiseCmd) (t : Time) :
    completeTx cmd t = [.updatePromise cmd, .completeTasks ⟨cmd.id, t⟩, .createTasks ⟨cmd.id, t⟩, .deleteCallbacks ⟨cmd.id⟩] := rfl

/-- and a transaction (indeed a whole batch) is applied entirely or not at all: after a failure at any position the
    database is the one before the batch -/
theorem batch_all_or_nothing (g : SqlDefs) (db : Db) (txs : List (List Cmd)) (e : StoreErr)
    (h : (db.execBatch g txs).2 = .error e) : (db.execBatch g txs).1 = db := C16.execBatch_error_atomic g db txs e h

/-- between two store batches nothing is written: every other kernel step leaves the database untouched, so a crash
    can fall only BETWEEN committed batches, never inside one -/
theorem only_batches_write (s : Sys) (c : Choice) (h : ∀ items, c ≠ .execStore items) : (s.step c).1.db = s.db := by
  cases c with
  | submit t r => simp only [Sys.step]; split <;> (try split) <;> rfl
  | tick t => simp only [Sys.step, Sys.tick]; split <;> rfl
  | execStore items => exact absurd rfl (h items)
  | complete id c => simp only [Sys.step]; split <;> rfl
  | shutdown => rfl
  | crash => rfl

end Resonate.C06
