/-
  Properties/C18.lean — the poll transport hands each accepted message to exactly one right listener.

  Model: Model/Poll.lean (`connections.add / rmv / get`, `PollWorker.Process`), tied to
  internal/app/plugins/poll/poll.go by the `polldiff` correspondence harness, which drives the real
  registry and worker code through the build-tag `verif` hook.  The choice among the members of a
  group (`rand.Intn`) is the parameter `pick`: every theorem holds for every pick.
-/
import Resonate.Proofs.PollInv
namespace Resonate.Poll

/-- registry invariant.  `closedOnce` and `open_` are exactly the conditions under which Go's
    `close(ch)` and `ch <- x` do not panic: no channel is closed twice, and no registered
    (hence: sendable) channel is closed. -/
structure Inv (s : St) : Prop where
  bound : s.conns.length ≤ s.max
  distinct : s.conns.Pairwise (fun a b => ¬ SameAddr a b)
  handles : (s.conns.map (·.handle)).Nodup
  fresh : ∀ c ∈ s.conns, c.handle < s.next
  closedFresh : ∀ h ∈ s.closed, h < s.next
  open_ : ∀ c ∈ s.conns, c.handle ∉ s.closed
  closedOnce : s.closed.Nodup
  room : ∀ c ∈ s.conns, c.buf.length ≤ c.cap

theorem inv_init (max : Nat) : Inv { max := max } := by
  constructor <;> simp

theorem closed_cases (s : St) (g i : String) (h : Option Nat) :
    ((rmvFirst s.conns g i h).2 = none ∧ (rmvFirst s.conns g i h).1 = s.conns) ∨
    (∃ x, (rmvFirst s.conns g i h).2 = some x) := by
  cases hx : (rmvFirst s.conns g i h).2 with
  | none => exact .inl ⟨rfl, rmvFirst_none hx⟩
  | some x => exact .inr ⟨x, rfl⟩

/-- removing (and closing) the first hit keeps the invariant -/
theorem inv_rmvFirst {s : St} (hi : Inv s) (g i : String) (h : Option Nat) :
    Inv { s with conns := (rmvFirst s.conns g i h).1,
                 closed := match (rmvFirst s.conns g i h).2 with | some x => x :: s.closed | none => s.closed } := by
  have hsub := rmvFirst_sublist s.conns g i h
  have hmem : ∀ a ∈ (rmvFirst s.conns g i h).1, a ∈ s.conns := fun a ha => hsub.subset ha
  rcases closed_cases s g i h with ⟨hn, he⟩ | ⟨x, hx⟩
  · simp only [hn, he]; exact hi
  · have hc := rmvFirst_closed hx hi.handles
    obtain ⟨c, hcm, hch⟩ := List.mem_map.mp hc.1
    simp only [hx]
    refine ⟨Nat.le_trans hsub.length_le hi.bound, hi.distinct.sublist hsub, hi.handles.sublist (hsub.map _),
      fun a ha => hi.fresh a (hmem a ha), ?_, ?_, ?_, fun a ha => hi.room a (hmem a ha)⟩
    · intro y hy
      simp only [List.mem_cons] at hy
      rcases hy with rfl | hy
      · exact hch ▸ hi.fresh c hcm
      · exact hi.closedFresh y hy
    · intro a ha hcl
      simp only [List.mem_cons] at hcl
      rcases hcl with heq | hcl
      · exact hc.2 (heq ▸ List.mem_map_of_mem ha)
      · exact hi.open_ a (hmem a ha) hcl
    · simp only [List.nodup_cons]
      exact ⟨fun hcl => hi.open_ c hcm (hch ▸ hcl), hi.closedOnce⟩

theorem inv_rmv {s : St} (hi : Inv s) (c : Conn) : Inv (rmv s c) := inv_rmvFirst hi c.group c.id (some c.handle)

/-- registering a NEW connection object (handle not yet used) keeps the invariant -/
theorem inv_add {s : St} (hi : Inv s) (c : Conn) (hfresh : s.next ≤ c.handle) (hbuf : c.buf = []) :
    Inv (add { s with next := c.handle + 1 } c) := by
  have h1 := inv_rmvFirst hi c.group c.id none
  have hgone := rmvFirst_gone (g := c.group) (i := c.id) hi.distinct
  unfold add
  simp only
  split
  · -- at the limit: the new connection is closed at once and not registered
    refine ⟨h1.bound, h1.distinct, h1.handles, fun a ha => Nat.lt_succ_of_lt (Nat.lt_of_lt_of_le (h1.fresh a ha) hfresh), ?_, ?_, ?_, h1.room⟩
    · intro y hy
      simp only [List.mem_cons] at hy
      rcases hy with rfl | hy
      · exact Nat.lt_succ_self _
      · exact Nat.lt_succ_of_lt (Nat.lt_of_lt_of_le (h1.closedFresh y hy) hfresh)
    · intro a ha hcl
      simp only [List.mem_cons] at hcl
      rcases hcl with heq | hcl
      · have := h1.fresh a ha; simp only at this; omega
      · exact h1.open_ a ha hcl
    · simp only [List.nodup_cons]
      refine ⟨fun hcl => ?_, h1.closedOnce⟩
      have := h1.closedFresh _ hcl; simp only at this; omega
  · rename_i hlen
    refine ⟨?_, ?_, ?_, ?_, ?_, ?_, h1.closedOnce, ?_⟩
    · simp only [List.length_append, List.length_cons, List.length_nil]; simp only [ge_iff_le, Nat.not_le] at hlen; omega
    · rw [List.pairwise_append]
      refine ⟨h1.distinct, by simp, ?_⟩
      intro a ha b hb
      simp only [List.mem_singleton] at hb
      subst hb
      exact fun hs => hgone a ha hs
    · rw [List.map_append, List.nodup_append]
      refine ⟨h1.handles, by simp, ?_⟩
      intro x hx y hy
      simp only [List.map_cons, List.map_nil, List.mem_singleton] at hy
      obtain ⟨a, ha, rfl⟩ := List.mem_map.mp hx
      have := h1.fresh a ha; simp only at this; omega
    · intro a ha
      simp only [List.mem_append, List.mem_singleton] at ha
      rcases ha with ha | rfl
      · exact Nat.lt_succ_of_lt (Nat.lt_of_lt_of_le (h1.fresh a ha) hfresh)
      · exact Nat.lt_succ_self _
    · intro y hy
      exact Nat.lt_succ_of_lt (Nat.lt_of_lt_of_le (h1.closedFresh y hy) hfresh)
    · intro a ha hcl
      simp only [List.mem_append, List.mem_singleton] at ha
      rcases ha with ha | rfl
      · exact h1.open_ a ha hcl
      · have := h1.closedFresh _ hcl; simp only at this; omega
    · intro a ha
      simp only [List.mem_append, List.mem_singleton] at ha
      rcases ha with ha | rfl
      · exact h1.room a ha
      · simp [hbuf]

/-! ### `get` and `process` -/

theorem get_mem {s : St} {g i : String} {p : Nat} {c : Conn} (h : get s g i p = some c) : c ∈ s.conns ∧ c.group = g := by
  unfold get at h
  simp only at h
  split at h
  · cases h
  · split at h
    · rename_i hf
      cases h
      split at hf
      · have hm := List.mem_of_find?_eq_some hf
        have := List.mem_filter.mp hm
        exact ⟨this.1, by simpa using this.2⟩
      · cases hf
    · have hm := List.mem_of_getElem? h
      have := List.mem_filter.mp hm
      exact ⟨this.1, by simpa using this.2⟩

/-- the addressed listener is preferred whenever it is connected -/
theorem get_prefers_id {s : St} {g i : String} {p : Nat} {c : Conn} (h : get s g i p = some c)
    (hid : i ≠ "") (hex : ∃ x ∈ s.conns, x.group = g ∧ x.id = i) : c.id = i := by
  obtain ⟨x, hx, hxg, hxi⟩ := hex
  have hxm : x ∈ s.conns.filter (·.group == g) := List.mem_filter.mpr ⟨hx, by simpa using hxg⟩
  unfold get at h
  simp only at h
  split at h
  · cases h
  · have hne : (i != "") = true := by simpa using hid
    simp only [hne, if_true] at h
    split at h
    · rename_i hf
      cases h
      have := List.find?_some hf
      simpa using this
    · rename_i hf
      have := List.find?_eq_none.mp hf x hxm
      simp [hxi] at this

/-- the two ways a send can end -/
theorem process_cases (s : St) (n : Bool) (g i b : String) (p : Nat) :
    (∃ c, get s g i p = some c ∧ (n && c.id != i) = false ∧ c.buf.length < c.cap ∧
        process s n g i b p = (bump s c.handle b, .delivered c.handle)) ∨
    ((process s n g i b p).1 = s ∧ ∀ hd, (process s n g i b p).2 ≠ .delivered hd) := by
  unfold process
  cases hget : get s g i p with
  | none => right; simp
  | some c =>
    by_cases h1 : (n && c.id != i) = true
    · right; simp [h1]
    · by_cases h2 : c.buf.length < c.cap
      · left; exact ⟨c, rfl, by simpa using h1, h2, by simp [h1, h2]⟩
      · right; simp [h1, h2]

/-- what a send does, for every pick: either nothing at all, or exactly one registered, open listener of the
    addressed group gets the body appended to its stream (and it had room); the addressed id is preferred
    when connected; notifications reach only the exact id -/
theorem process_spec (s : St) (hi : Inv s) (n : Bool) (g i b : String) (p : Nat) :
    match (process s n g i b p).2 with
    | .delivered hd =>
        ∃ c ∈ s.conns, c.handle = hd ∧ c.group = g ∧ c.handle ∉ s.closed ∧ c.buf.length < c.cap ∧
          (n = true → c.id = i) ∧
          (i ≠ "" → (∃ x ∈ s.conns, x.group = g ∧ x.id = i) → c.id = i) ∧
          (process s n g i b p).1 = bump s hd b
    | _ => (process s n g i b p).1 = s := by
  rcases process_cases s n g i b p with ⟨c, hget, hn, hroom, heq⟩ | ⟨hs, hnd⟩
  · rw [heq]
    have hm := get_mem hget
    refine ⟨c, hm.1, rfl, hm.2, hi.open_ c hm.1, hroom, ?_, fun hid hex => get_prefers_id hget hid hex, rfl⟩
    intro hnt
    subst hnt
    simpa using hn
  · cases hr : (process s n g i b p).2 with
    | delivered hd => exact absurd hr (hnd hd)
    | noConnection => exact hs
    | notifyWrongId => exact hs
    | full => exact hs

/-- exactly one: every other registered listener's stream is untouched -/
theorem process_others_untouched (s : St) (n : Bool) (g i b : String) (p : Nat) (hd : Nat)
    (h : (process s n g i b p).2 = .delivered hd) :
    ∀ x ∈ s.conns, x.handle ≠ hd → x ∈ (process s n g i b p).1.conns := by
  intro x hx hne
  rcases process_cases s n g i b p with ⟨c, -, -, -, heq⟩ | ⟨-, hnd⟩
  · rw [heq] at h ⊢
    simp only [Outcome.delivered.injEq] at h
    subst h
    exact List.mem_map.mpr ⟨x, hx, bumpConn_of_ne hne⟩
  · exact absurd h (hnd hd)

def buffered (s : St) : Nat := (s.conns.map (·.buf.length)).sum

/-- a delivered message is buffered exactly once in the whole registry; an undelivered one nowhere -/
theorem process_count (s : St) (hi : Inv s) (n : Bool) (g i b : String) (p : Nat) :
    buffered (process s n g i b p).1 =
      buffered s + (match (process s n g i b p).2 with | .delivered _ => 1 | _ => 0) := by
  rcases process_cases s n g i b p with ⟨c, hget, -, -, heq⟩ | ⟨hs, hnd⟩
  · rw [heq]
    exact sum_bump s.conns c.handle b hi.handles c (get_mem hget).1 rfl
  · rw [hs]
    cases hr : (process s n g i b p).2 with
    | delivered hd => exact absurd hr (hnd hd)
    | noConnection => rfl
    | notifyWrongId => rfl
    | full => rfl

theorem inv_bump {s : St} (hi : Inv s) (c : Conn) (hc : c ∈ s.conns) (hroom : c.buf.length < c.cap) (b : String) :
    Inv (bump s c.handle b) := by
  unfold bump
  have hback : ∀ a ∈ s.conns.map (bumpConn c.handle b), ∃ x ∈ s.conns, a = bumpConn c.handle b x := by
    intro a ha; obtain ⟨x, hx, rfl⟩ := List.mem_map.mp ha; exact ⟨x, hx, rfl⟩
  refine ⟨by simpa using hi.bound, ?_, by rw [map_bump_handles]; exact hi.handles, ?_, hi.closedFresh, ?_, hi.closedOnce, ?_⟩
  · simp only
    rw [List.pairwise_map]
    exact hi.distinct.imp (fun hab => by simpa [SameAddr] using hab)
  · intro a ha; obtain ⟨x, hx, rfl⟩ := hback a ha; simpa using hi.fresh x hx
  · intro a ha; obtain ⟨x, hx, rfl⟩ := hback a ha; simpa using hi.open_ x hx
  · intro a ha
    obtain ⟨x, hx, rfl⟩ := hback a ha
    by_cases hxh : x.handle = c.handle
    · have hxc : x = c := nodup_map_inj hi.handles hx hc hxh
      subst hxc
      rw [bumpConn_of_eq rfl, bumpConn_cap]
      simp only [List.length_append, List.length_cons, List.length_nil]; omega
    · rw [bumpConn_of_ne hxh]; exact hi.room x hx

theorem inv_process {s : St} (hi : Inv s) (n : Bool) (g i b : String) (p : Nat) : Inv (process s n g i b p).1 := by
  rcases process_cases s n g i b p with ⟨c, hget, -, hroom, heq⟩ | ⟨hs, -⟩
  · rw [heq]; exact inv_bump hi c (get_mem hget).1 hroom b
  · rw [hs]; exact hi

theorem inv_shutdown {s : St} (hi : Inv s) : Inv (shutdown s) := by
  unfold shutdown
  refine ⟨by simp, by simp, by simp, by simp, ?_, by simp, ?_, by simp⟩
  · intro h hh
    simp only [List.mem_append] at hh
    rcases hh with hh | hh
    · obtain ⟨c, hc, rfl⟩ := List.mem_map.mp hh; exact hi.fresh c hc
    · exact hi.closedFresh h hh
  · simp only
    rw [List.nodup_append]
    refine ⟨hi.handles, hi.closedOnce, ?_⟩
    intro x hx y hy hxy
    subst hxy
    obtain ⟨c, hc, rfl⟩ := List.mem_map.mp hx
    exact hi.open_ c hc hy

theorem inv_readOne {s : St} (hi : Inv s) (hd : Nat) : Inv (readOne s hd) := by
  unfold readOne
  have hh : (s.conns.map fun x => if x.handle == hd then { x with buf := x.buf.tail } else x).map (·.handle) = s.conns.map (·.handle) := by
    rw [List.map_map]; apply List.map_congr_left; intro x _; simp only [Function.comp]; split <;> rfl
  have hback : ∀ a ∈ (s.conns.map fun x => if x.handle == hd then { x with buf := x.buf.tail } else x),
      ∃ x ∈ s.conns, a.handle = x.handle ∧ a.cap = x.cap ∧ a.buf.length ≤ x.buf.length := by
    intro a ha
    obtain ⟨x, hx, rfl⟩ := List.mem_map.mp ha
    refine ⟨x, hx, ?_⟩
    split <;> simp
  refine ⟨by simpa using hi.bound, ?_, by rw [hh]; exact hi.handles, ?_, hi.closedFresh, ?_, hi.closedOnce, ?_⟩
  · simp only
    rw [List.pairwise_map]
    refine hi.distinct.imp ?_
    intro a b hab
    simp only [SameAddr] at hab ⊢
    split <;> split <;> simpa using hab
  · intro a ha; obtain ⟨x, hx, h1, -⟩ := hback a ha; simp only; rw [h1]; exact hi.fresh x hx
  · intro a ha; obtain ⟨x, hx, h1, -⟩ := hback a ha; simp only; rw [h1]; exact hi.open_ x hx
  · intro a ha; obtain ⟨x, hx, -, h2, h3⟩ := hback a ha; rw [h2]; exact Nat.le_trans h3 (hi.room x hx)

theorem inv_down {s : St} (hi : Inv s) (b : Bool) : Inv { s with down := b } :=
  ⟨hi.bound, hi.distinct, hi.handles, hi.fresh, hi.closedFresh, hi.open_, hi.closedOnce, hi.room⟩

theorem inv_step {s : St} (hi : Inv s) (op : Op) : Inv (step s op) := by
  cases op with
  | connect g i cap =>
    have h := inv_add hi { handle := s.next, group := g, id := i, cap := cap, buf := [] } (Nat.le_refl _) rfl
    simp only [step]; split
    · exact inv_shutdown h
    · exact h
  | disconnect h g i =>
    have h' := inv_rmv hi { handle := h, group := g, id := i, cap := 0, buf := [] }
    simp only [step]; split
    · exact inv_shutdown h'
    · exact h'
  | send n g i b p =>
    simp only [step]; split
    · exact hi
    · exact inv_process hi n g i b p
  | shutdown => exact inv_shutdown (inv_down hi true)
  | read h => exact inv_readOne hi h

/-- once the send queue is closed nothing stays registered: whatever connects is closed by the same loop iteration -/
theorem down_empty (s : St) (op : Op) (h : s.down = true → s.conns = []) : (step s op).down = true → (step s op).conns = [] := by
  cases op with
  | connect g i cap =>
    simp only [step]; split
    · intro _; rfl
    · rename_i hd; intro hdn; exfalso; apply hd
      simp only [add] at hdn; split at hdn <;> simpa using hdn
  | disconnect hh g i =>
    simp only [step]; split
    · intro _; rfl
    · rename_i hd; intro hdn; exfalso; apply hd; simpa [rmv] using hdn
  | send n g i b p =>
    simp only [step]; split
    · exact h
    · rename_i hd
      intro hdn
      exfalso; apply hd
      rcases process_cases s n g i b p with ⟨c, -, -, -, heq⟩ | ⟨hs, -⟩
      · rw [heq] at hdn; simpa [bump] using hdn
      · rw [hs] at hdn; exact hdn
  | shutdown => intro _; rfl
  | read hh =>
    simp only [step, readOne]
    intro hdn
    simp [h hdn]

/-- **C18, safety half**: after every sequence of connects, disconnects, reconnects, sends (any pick) and shutdowns,
    with every limit and buffer size: the limit is respected, an address has at most one listener (a reconnect replaced
    the older one), no channel was closed twice and no registered channel is closed — the transport cannot crash on
    `close` or `send` — and no stream holds more than its buffer. -/
theorem c18_registry_invariant (max : Nat) (ops : List Op) : Inv (run { max := max } ops) := by
  suffices h : ∀ s, Inv s → Inv (run s ops) from h _ (inv_init max)
  induction ops with
  | nil => intro s hs; exact hs
  | cons op ops ih => intro s hs; exact ih _ (inv_step hs op)

/-- **C18, delivery half**: in every reachable state and for every pick, a send is reported delivered only if one
    registered listener of the addressed group accepted it into its stream; that listener is the addressed one when it
    is connected, and for notifications always; nobody else's stream changes and the message is buffered exactly once. -/
theorem c18_delivery (max : Nat) (ops : List Op) (n : Bool) (g i b : String) (p : Nat) :
    let s := run { max := max } ops
    (match (process s n g i b p).2 with
     | .delivered hd =>
        ∃ c ∈ s.conns, c.handle = hd ∧ c.group = g ∧ c.handle ∉ s.closed ∧ c.buf.length < c.cap ∧
          (n = true → c.id = i) ∧ (i ≠ "" → (∃ x ∈ s.conns, x.group = g ∧ x.id = i) → c.id = i) ∧
          (∀ x ∈ s.conns, x.handle ≠ hd → x ∈ (process s n g i b p).1.conns)
     | _ => (process s n g i b p).1 = s) ∧
    buffered (process s n g i b p).1 = buffered s + (match (process s n g i b p).2 with | .delivered _ => 1 | _ => 0) := by
  intro s
  have hi := c18_registry_invariant max ops
  refine ⟨?_, process_count s hi n g i b p⟩
  have hs := process_spec s hi n g i b p
  cases hr : (process s n g i b p).2 with
  | delivered hd =>
    simp only [hr] at hs ⊢
    obtain ⟨c, hc, h1, h2, h3, h4, h5, h6, -⟩ := hs
    exact ⟨c, hc, h1, h2, h3, h4, h5, h6, process_others_untouched s n g i b p hd hr⟩
  | noConnection => simpa [hr] using hs
  | notifyWrongId => simpa [hr] using hs
  | full => simpa [hr] using hs

/-- the streams: a send reported delivered adds its body exactly once, to the stream of the chosen listener; a send
    not reported delivered adds nothing anywhere -/
theorem c18_stream_of_send (s : St) (n : Bool) (g i b : String) (p : Nat) :
    (process s n g i b p).1.log = s.log ++ (match (process s n g i b p).2 with | .delivered hd => [(hd, b)] | _ => []) := by
  rcases process_cases s n g i b p with ⟨c, -, -, -, heq⟩ | ⟨hs, hnd⟩
  · rw [heq]; rfl
  · rw [hs]
    cases hr : (process s n g i b p).2 with
    | delivered hd => exact absurd hr (hnd hd)
    | noConnection => simp
    | notifyWrongId => simp
    | full => simp

/-- nothing but a send ever writes to a stream: connects, disconnects, reconnects, reads and shutdown leave every stream as it is -/
theorem c18_stream_only_sends (s : St) (op : Op) (h : ∀ n g i b p, op ≠ .send n g i b p) : (step s op).log = s.log := by
  cases op with
  | connect g i cap => simp only [step, add, shutdown]; split <;> (split <;> rfl)
  | disconnect hh g i => simp only [step, rmv, shutdown]; split <;> rfl
  | send n g i b p => exact absurd rfl (h n g i b p)
  | shutdown => rfl
  | read hh => rfl

/-- after the send queue has been closed (server stopping) no listener stays registered, whatever connects later -/
theorem c18_down_registry_empty (max : Nat) (ops : List Op) :
    (run { max := max } ops).down = true → (run { max := max } ops).conns = [] := by
  suffices h : ∀ s : St, (s.down = true → s.conns = []) → ((run s ops).down = true → (run s ops).conns = []) from
    h _ (by simp)
  induction ops with
  | nil => intro s hs; exact hs
  | cons op ops ih => intro s hs; exact ih _ (down_empty s op hs)

/-- an undecodable (or `null`) address is a failed hand-off that touches nothing -/
theorem c18_bad_address (s : St) (n : Bool) (data body : String) (p : Nat)
    (h : ∀ g i, decodeData data ≠ .ok g i) : processRaw s n data body p = (s, none) := by
  unfold processRaw
  cases hd : decodeData data with
  | ok g i => exact absurd hd (h g i)
  | null => rfl
  | bad => rfl

/-! ### non-vacuity -/

/-- a reconnect replaces the older connection of the same address and closes it; a third address is turned away at the limit -/
example :
    let s := run { max := 2 } [.connect "g" "a" 1, .connect "g" "b" 1, .connect "g" "a" 1, .connect "h" "c" 1]
    s.conns.map (fun c => (c.handle, c.group, c.id)) = [(1, "g", "b"), (2, "g", "a")] ∧ s.closed = [3, 0] := by decide

/-- delivery to the addressed id, fallback inside the group, refusal of a notification for an absent id, full buffer -/
example :
    let s := run { max := 4 } [.connect "g" "a" 1, .connect "g" "b" 1, .connect "h" "a" 1]
    (process s false "g" "b" "m" 0).2 = .delivered 1 ∧ (process s false "g" "zz" "m" 1).2 = .delivered 1 ∧
    (process s true "g" "zz" "m" 1).2 = .notifyWrongId ∧ (process s false "k" "a" "m" 0).2 = .noConnection ∧
    (process (process s false "g" "b" "m" 0).1 false "g" "b" "m2" 0).2 = .full := by decide

example : decodeData "{\"group\":\"g\",\"id\":\"a\"}" = .ok "g" "a" ∧ decodeData "{\"group\":\"g\"}" = .ok "g" "" ∧
    decodeData "null" = .null ∧ decodeData "{\"group\":1}" = .bad := by
  refine ⟨?_, ?_, ?_, ?_⟩ <;> decide

end Resonate.Poll
