/-
  Properties/C17.lean — the Postgres back end decides and writes what the SQLite back end does.
  Both statement sets are regenerated from /repo on every run and proved equal to `SqlSpec.defs .pg`
  / `SqlSpec.defs .sqlite` (Proofs/Tie.lean, theorems `pg_*` and `sqlite_*`); this file proves that
  the two specifications give the same store semantics, command by command, under the documented
  dialect precondition `DialectSafe`, and that outside it they really differ (witnesses).
-/
import Resonate.Model.SqlSpec
import Resonate.Proofs.StoreBasics
namespace Resonate.C17
open Resonate SqlSpec

/-! ### where the dialects agree on expressions -/

def noUpper (c : Char) : Bool := asciiLower c == c

/-- without ASCII upper-case letters on either side and without `\` in the pattern, sqlite's
    case-insensitive LIKE and Postgres' case-sensitive, backslash-escaping LIKE coincide -/
theorem like_agree : ∀ (n : Nat) (p s : List Char), p.length + s.length ≤ n → p.all noUpper = true → s.all noUpper = true →
    p.all (· != '\\') = true → likeGo true false p s = likeGo false true p s := by
  intro n
  induction n with
  | zero =>
    intro p s hn _ _ _
    have hp : p = [] := by cases p <;> simp_all
    subst hp; simp [likeGo]
  | succ n ih =>
    intro p s hn hp hs hb
    cases p with
    | nil => simp [likeGo]
    | cons c p =>
      simp only [List.all_cons, Bool.and_eq_true, List.length_cons] at hp hb hn
      by_cases h1 : c = '%'
      · subst h1
        cases s with
        | nil => simp only [likeGo]; rw [ih p [] (by simp; omega) hp.2 (by simp) hb.2]
        | cons d s' =>
          simp only [List.all_cons, Bool.and_eq_true, List.length_cons] at hs hn
          simp only [likeGo]
          rw [ih p (d :: s') (by simp; omega) hp.2 (by simp [hs]) hb.2,
              ih ('%' :: p) s' (by simp; omega) (by simp [hp]) hs.2 (by simp [hb])]
      · by_cases h2 : c = '_'
        · subst h2
          cases s with
          | nil => simp [likeGo]
          | cons d s' =>
            simp only [List.all_cons, Bool.and_eq_true, List.length_cons] at hs hn
            simp only [likeGo]
            exact ih p s' (by omega) hp.2 hs.2 hb.2
        · have h3 : c ≠ '\\' := by simpa using hb.1
          cases s with
          | nil => simp [likeGo, h1, h2, h3]
          | cons d s' =>
            simp only [List.all_cons, Bool.and_eq_true, List.length_cons] at hs hn
            have hc : asciiLower c = c := by simpa [noUpper] using hp.1
            have hd : asciiLower d = d := by simpa [noUpper] using hs.1
            simp [likeGo, h1, h2, h3, hc, hd, ih p s' (by omega) hp.2 hs.2 hb.2]

def StrSafe (x : String) : Prop := x.toList.all noUpper = true
def PatSafe (x : String) : Prop := x.toList.all noUpper = true ∧ x.toList.all (· != '\\') = true

theorem dLike_agree (s pat : String) (hs : StrSafe s) (hp : PatSafe pat) : dLike .pg s pat = dLike .sqlite s pat := by
  simp only [dLike, pgLike, sqliteLike]
  exact (like_agree _ pat.toList s.toList (Nat.le_refl _) hp.1 hs hp.2).symm

theorem starToPercent_safe (x : String) (h : PatSafe x) : PatSafe (starToPercent x) := by
  unfold PatSafe starToPercent at *
  simp only [String.toList_ofList, List.all_map]
  constructor
  · refine List.all_eq_true.mpr ?_
    intro c hc
    have := List.all_eq_true.mp h.1 c hc
    simp only [Function.comp]
    split
    · decide
    · exact this
  · refine List.all_eq_true.mpr ?_
    intro c hc
    have := List.all_eq_true.mp h.2 c hc
    simp only [Function.comp]
    split
    · decide
    · exact this

/-- tag filters agree when every requested key is a plain JSON-path label -/
theorem tags_agree (tags q : SMap) (h : ∀ kv ∈ q, PlainKey kv.1 = true) : dTagsMatch .pg tags q = dTagsMatch .sqlite tags q := by
  cases q with
  | nil => simp [dTagsMatch, optJsonMap, sqliteTagsMatch]
  | cons a q =>
    simp only [dTagsMatch, optJsonMap, List.isEmpty_cons, Bool.false_eq_true, if_false, Option.isNone_some, Bool.false_or,
      jsonContains, sqliteTagsMatch]
    have key : ∀ (l : SMap), (∀ kv ∈ l, PlainKey kv.1 = true) →
        (l.all fun kv => tags.get? kv.1 == some kv.2) = (l.all fun kv => sqliteJsonExtract tags kv.1 == some kv.2) := by
      intro l
      induction l with
      | nil => intro _; rfl
      | cons x l ih =>
        intro hl
        simp only [List.all_cons]
        rw [ih (fun kv hkv => hl kv (List.mem_cons_of_mem _ hkv))]
        simp [sqliteJsonExtract, hl x (List.mem_cons_self ..)]
    exact key (a :: q) h

/-- the documented dialect precondition for one command on one database -/
def DialectSafe (db : Db) : Cmd → Prop
  | .searchPromises c => PatSafe c.id ∧ (∀ r ∈ db.promises, StrSafe r.id) ∧ ∀ kv ∈ c.tags, PlainKey kv.1 = true
  | .searchSchedules c => PatSafe c.id ∧ (∀ r ∈ db.schedules, StrSafe r.id) ∧ ∀ kv ∈ c.tags, PlainKey kv.1 = true
  | _ => True

/-- **C17.** For every one of the 27 command kinds with arbitrary arguments on an arbitrary database: under
    `DialectSafe` the Postgres back end applies the same guard, writes the same values and reports the same
    rows and records as the SQLite back end (`DialectSafe` is `True` for 25 of the 27 kinds). -/
theorem exec_agree (db : Db) (cmd : Cmd) (h : DialectSafe db cmd) : db.exec (defs .pg) cmd = db.exec (defs .sqlite) cmd := by
  cases cmd with
  | searchPromises c =>
    obtain ⟨hp, hids, htags⟩ := h
    simp only [Db.exec]
    have : db.promises.filter ((defs .pg).promiseSearch_where c) = db.promises.filter ((defs .sqlite).promiseSearch_where c) := by
      apply List.filter_congr
      intro r hr
      simp only [defs, promiseSearch_where, dSortIdArg, pgInt4]
      rw [dLike_agree r.id _ (hids r hr) (starToPercent_safe _ hp), tags_agree r.tags c.tags htags]
    rw [this]; rfl
  | searchSchedules c =>
    obtain ⟨hp, hids, htags⟩ := h
    simp only [Db.exec]
    have : db.schedules.filter ((defs .pg).scheduleSearch_where c) = db.schedules.filter ((defs .sqlite).scheduleSearch_where c) := by
      apply List.filter_congr
      intro r hr
      simp only [defs, scheduleSearch_where, dSortIdArg, pgInt4]
      rw [dLike_agree r.id _ (hids r hr) (starToPercent_safe _ hp), tags_agree r.tags c.tags htags]
    rw [this]; rfl
  | createTasks c =>
    simp only [Db.exec]
    have : ∀ (cbs : List CallbackRow) (ts : List TaskRow) (n : Nat),
        insertTasksFrom (defs .pg) c cbs ts n = insertTasksFrom (defs .sqlite) c cbs ts n := by
      intro cbs
      induction cbs with
      | nil => intro ts n; rfl
      | cons cb rest ih => intro ts n; simp only [insertTasksFrom]; rw [ih]; rfl
    rw [this]; rfl
  | _ => rfl

/-- hence whole transactions agree, as long as every command meets the precondition when it runs -/
theorem execTx_agree : ∀ (cs : List Cmd) (db : Db),
    (∀ db' c, c ∈ cs → DialectSafe db' c) → db.execTx (defs .pg) cs = db.execTx (defs .sqlite) cs := by
  intro cs
  induction cs with
  | nil => intro db _; rfl
  | cons c cs ih =>
    intro db h
    simp only [Db.execTx]
    rw [exec_agree db c (h db c (List.mem_cons_self ..))]
    cases db.exec (defs .sqlite) c with
    | error e => rfl
    | ok p =>
      obtain ⟨db1, r⟩ := p
      simp only
      rw [ih db1 (fun db' x hx => h db' x (List.mem_cons_of_mem _ hx))]

/-! ### outside the precondition the dialects really differ (documented dialect differences) -/

/-- LIKE is ASCII-case-insensitive on sqlite, case-sensitive on Postgres -/
theorem like_case_differs : likeGo true false ['a'] ['A'] = true ∧ likeGo false true ['a'] ['A'] = false := by
  simp [likeGo, asciiLower]

/-- `\` escapes the next pattern character on Postgres only -/
theorem like_backslash_differs : likeGo true false ['\\', '%'] ['%'] = false ∧ likeGo false true ['\\', '%'] ['%'] = true := by
  simp [likeGo]

/-- a tag key containing `.` never matches on sqlite (finding F14), and matches on Postgres -/
theorem tag_key_with_dot_differs : dTagsMatch .sqlite [("a.b", "x")] [("a.b", "x")] = false ∧ dTagsMatch .pg [("a.b", "x")] [("a.b", "x")] = true := by decide

/-! ### non-vacuity -/
example : ['p', '*'].all noUpper = true ∧ ['p', '*'].all (· != '\\') = true ∧ ['p', '0'].all noUpper = true := by decide

end Resonate.C17
