/-
  Properties/C13.lean — no client input (and no stored state) drives a coroutine into an assertion.

  Every `.panic` leaf of the coroutine model is one of the kernel's `util.Assert` / nil-dereference sites
  (Generated/Sites.lean lists the sites of the Go code, pinned in Proofs/SitesPin.lean).  The theorem: for EVERY
  request that passes the front ends' validation (`ValidReq`), and for every background coroutine, whatever the
  database holds and however the completions are timed, NO assertion is reachable — provided the completions
  answer the submissions (the kernel delivers exactly such completions: C06.store_completion_is_truthful),
  keys are unique and promise states legal in the databases the transactions ran on (`Keys`), and the clock does
  not run backwards between two steps of one coroutine.
-/
import Resonate.Proofs.NoPanic
import Resonate.Proofs.Kernel
import Resonate.Proofs.FreshIds
import Resonate.Model.Env
namespace Resonate.C13
open Coro SqlSpec

/-- what the HTTP and gRPC front ends let through (the store asserts a non-empty state set on a promise search)
    (tied by frontdiff: a malformed request is answered 4xx without
    reaching the kernel, or reaches it in a form that satisfies this predicate) -/
def ValidReq : Req → Prop
  | .searchPromises q => q.id ≠ "" ∧ 0 < q.limit ∧ q.states ≠ []
  | .searchSchedules q => q.id ≠ "" ∧ 0 < q.limit
  | .claimTask q => q.processId ≠ "" ∧ 0 ≤ q.ttl
  | .createPromiseAndTask p tr => p.id = tr.promiseId ∧ p.timeout = tr.timeout
  | .completePromise q => promiseStateOk q.state = true   -- the store asserts a completion state (resolved / rejected / canceled / timed out)
  | _ => True

instance (r : Req) : Decidable (ValidReq r) := by
  cases r <;> simp only [ValidReq] <;> exact inferInstance

/-- **requests.** Every validated request, started at any tick `t0`, restarted at any later tick `t` (the kernel
    restarts a coroutine that lost a race), on any history of databases: no assertion is reachable. -/
theorem request_never_panics (d : Dialect) (env : Env) (r : Req) (hv : ValidReq r) (t0 t : Time) (lo : Db) (now : Time) :
    NoPanic d lo now ((r.body env t0) t) := by
  cases r with
  | readPromise id => exact np_readPromise d id t lo now
  | searchPromises q => exact np_searchPromises d q t hv.1 hv.2.1 lo now
  | createPromise q => exact np_createPromiseInner d q none false t rfl (by intro tc h; cases h) lo now
  | createPromiseAndTask p tr =>
    simp only [Req.body]
    have h1 : (p.id != tr.promiseId) = false := by simp [hv.1]
    have h2 : (p.timeout != tr.timeout) = false := by simp [hv.2]
    simp only [h1, h2, Bool.false_eq_true, if_false]
    exact np_createPromiseInner d p _ true t rfl (by intro tc h; injection h with h; subst h; simp [taskCmdOf, hv.1]) lo now
  | completePromise q => exact np_completePromise d q t lo now
  | createCallback q => exact np_createCallback d q t lo now
  | createSubscription q => exact np_createSubscription d q t lo now
  | readSchedule id => exact np_readSchedule d id t lo now
  | searchSchedules q => exact np_searchSchedules d q t hv.1 hv.2 lo now
  | createSchedule q => exact np_createSchedule d env q t lo now
  | deleteSchedule id => exact np_deleteSchedule d id t lo now
  | acquireLock q => exact np_acquireLock d q t lo now
  | releaseLock res ex => exact np_releaseLock d res ex t lo now
  | heartbeatLocks pid => exact np_heartbeatLocks d pid t lo now
  | claimTask q => exact np_claimTask d env q t lo now hv.1 hv.2
  | completeTask id counter => exact np_completeTask d id counter t lo now
  | heartbeatTasks pid => exact np_heartbeatTasks d pid t lo now

/-- **stored state is never a poison pill.** The five background coroutines — time-out sweep, schedule firing, lock
    sweep, task dispatch, task lease sweep — started at tick `t0` and resumed at ticks that are not earlier, reach no
    assertion whatever promises, schedules, locks, tasks and registrations the database holds (templates that do not
    evaluate and cron expressions without a next time are skipped, not asserted). -/
theorem background_never_panics (d : Dialect) (env : Env) (k : BgKind) (t0 : Time) (lo : Db) (now : Time) (hnow : t0 ≤ now) :
    NoPanic d lo now (k.body env t0) := by
  cases k with
  | timeoutPromises => exact np_timeoutPromises d env t0 lo now hnow
  | schedulePromises => exact np_schedulePromises d env t0 lo now hnow
  | timeoutLocks => exact np_timeoutLocks d t0 lo now
  | timeoutTasks => exact np_timeoutTasks d env t0 lo now
  | enqueueTasks => exact np_enqueueTasks d env t0 lo now

/-- the hypotheses are satisfiable: a fresh database has unique keys -/
theorem keys_empty : Keys ({} : Db) := by
  refine ⟨?_, ?_, ?_, ?_, ?_, ?_⟩ <;> simp [PromIds]

/-- … and what `NoPanic` buys: a coroutine that satisfies it and is resumed with answering completions is never at an
    assertion, and neither is what it continues with — one step of the unfolding, to be iterated along a run -/
theorem no_panic_step (d : Dialect) (lo : Db) (now : Time) (subs : List Subm) (k : Time → List Cpl → Co)
    (h : NoPanic d lo now (.yield subs k)) (t : Time) (cpls : List Cpl) (hi : Db) (ht : now ≤ t) (hm : PromMono lo hi)
    (ha : Answers d lo hi subs cpls) : NoPanic d hi t (k t cpls) ∧ ∀ s, k t cpls ≠ .panic s := by
  cases h with
  | yield _ _ _ _ hk =>
    have := hk t cpls hi ht hm ha
    refine ⟨this, ?_⟩
    intro s hs
    rw [hs] at this
    cases this

/-! ### the whole server: no run of the kernel ever reaches an assertion

  The two theorems above are about one coroutine fed with answering completions.  Proofs/Kernel.lean shows that the
  kernel (`Sys.step`: ticks, completion delivery, store batches with injected failures, router / sender completions,
  shutdown, crashes) feeds every coroutine exactly such completions, on databases whose keys are unique
  (Proofs/KeysInv.lean, preserved by every command the coroutines emit: Proofs/AllYieldsK.lean), at clocks that do not
  step back.  Hence, for EVERY run that respects `RunOkV`, no assertion event is ever emitted — whatever the workload,
  the interleaving and batching of store transactions, the queue / batch / pool sizes, the injected failures and the
  crash points. -/

theorem bgOk (d : Dialect) (env : Env) : BgOk d env := fun k t0 lo now h => background_never_panics d env k t0 lo now h
theorem reqOk (d : Dialect) (env : Env) (r : Req) (hv : ValidReq r) : ReqOk d env r :=
  fun t0 t lo now => request_never_panics d env r hv t0 t lo now

theorem stateOk_of_valid (r : Req) (hv : ValidReq r) : r.StateOk := by
  cases r <;> simp only [Req.StateOk] <;> first | exact hv | trivial

/-- what a run must respect: submitted requests passed the front ends' validation; the clock given to ticks does not
    step back (a clock stepping back trips elapsed-time assertions: DESIGN observation O3); a thread id started by a
    tick is not in use (the model names submissions by thread id + sequence number where Go uses closures); a router /
    sender completion is one of that subsystem.  Decidable: the model driver evaluates it at every step of every
    script of the correspondence harness. -/
def StepOkV (clk : Time) (s : Sys) : Choice → Prop
  | .submit _ r => ValidReq r
  | .tick t => TickOk clk s t
  | .complete id c => ∀ e ∈ s.pending, e.1 = id → KindOk e.2 c
  | _ => True

def RunOkV : Time → Sys → List Choice → Prop
  | _, _, [] => True
  | clk, s, c :: cs => StepOkV clk s c ∧ RunOkV (clkAfter clk c) (s.step c).1 cs

instance (s : Subm) (c : Cpl) : Decidable (KindOk s c) := by
  cases s <;> cases c <;> simp only [KindOk] <;> exact inferInstance

instance (clk : Time) (s : Sys) (t : Time) : Decidable (TickOk clk s t) := by
  unfold TickOk TidsDistinct; exact inferInstance

instance (clk : Time) (s : Sys) (c : Choice) : Decidable (StepOkV clk s c) := by
  cases c <;> simp only [StepOkV] <;> exact inferInstance

/-- executable form of `RunOkV` -/
def runOkB : Time → Sys → List Choice → Bool
  | _, _, [] => true
  | clk, s, c :: cs => decide (StepOkV clk s c) && runOkB (clkAfter clk c) (s.step c).1 cs

theorem runOkB_sound : ∀ (cs : List Choice) (clk : Time) (s : Sys), runOkB clk s cs = true → RunOkV clk s cs := by
  intro cs
  induction cs with
  | nil => intro _ _ _; trivial
  | cons c cs ih =>
    intro clk s h
    simp only [runOkB, Bool.and_eq_true, decide_eq_true_eq] at h
    exact ⟨h.1, ih _ _ h.2⟩

theorem runOkV_runOk (d : Dialect) : ∀ (cs : List Choice) (clk : Time) (s : Sys), RunOkV clk s cs → RunOk d clk s cs := by
  intro cs
  induction cs with
  | nil => intro _ _ _; trivial
  | cons c cs ih =>
    intro clk s h
    refine ⟨?_, ih _ _ h.2⟩
    have h1 := h.1
    cases c with
    | submit tid r => exact ⟨reqOk d s.env r h1, stateOk_of_valid r h1⟩
    | tick t => exact h1
    | complete id cp => exact h1
    | execStore items => trivial
    | shutdown => trivial
    | crash => trivial

/-- **the server never asserts.** From a freshly booted server over any database with unique keys: along every run
    that respects `RunOkV`, no assertion event — no `util.Assert` / nil-dereference site of any of the 22 coroutines, no
    request coroutine finishing without a response — is ever emitted. -/
theorem server_never_asserts (d : Dialect) (env : Env) (db : Db) (hk : KeysX db) (clk : Time) (cs : List Choice)
    (hok : RunOkV clk (Sys.boot env d (defs d) db) cs) :
    ∀ e ∈ (Sys.boot env d (defs d) db).runEvents cs, ∀ tid site, e ≠ .panic tid site := by
  intro e he tid site heq
  have := (run_no_assert d cs _ clk (bgOk d env) (kinv_boot d env db clk hk) (runOkV_runOk d cs clk _ hok)).1 e he
  rw [heq] at this
  cases this

/-- **the store never asserts.** Along every such run, no store batch fails with an assertion of the store layer (a
    search without a pattern, a completion state outside resolved / rejected / canceled / timed out, a task command
    without states, …) — in the Go code those panic the store's worker goroutine and take the process down.  Store
    batches may still fail: with an injected failure, or with the UNIQUE violation of a registration whose derived id
    collides with an existing task (finding F2) — never with an assertion. -/
theorem store_never_asserts (d : Dialect) (env : Env) (db : Db) (hk : KeysX db) (clk : Time) (cs : List Choice)
    (hok : RunOkV clk (Sys.boot env d (defs d) db) cs) :
    ∀ e ∈ (Sys.boot env d (defs d) db).runErrs cs, ∀ m, e ≠ .assertion m :=
  run_store_no_assert d cs _ clk (bgOk d env) (kinv_boot d env db clk hk) (runOkV_runOk d cs clk _ hok)

/-- **the server never stops.** Along every such run the kernel never halts: not on an assertion, and not by a
    coroutine running away (every coroutine reaches its next blocking submission, a response or a restart within a
    bounded number of steps: Proofs/Productive.lean, so the model's per-tick fuel is never exhausted). -/
theorem server_never_halts (d : Dialect) (env : Env) (db : Db) (hk : KeysX db) (clk : Time) (cs : List Choice)
    (hok : RunOkV clk (Sys.boot env d (defs d) db) cs) : ((Sys.boot env d (defs d) db).run cs).halted = none :=
  run_never_halts d cs _ clk (bgOk d env) (kinv_boot d env db clk hk) (runOkV_runOk d cs clk _ hok)

/-- … and the key invariants the assertions rely on hold in every state such a run reaches: promise, schedule, lock and
    task ids are unique, promise states legal, every invocation task has its promise. -/
theorem reachable_keys (d : Dialect) (env : Env) (db : Db) (hk : KeysX db) (clk : Time) (cs : List Choice)
    (hok : RunOkV clk (Sys.boot env d (defs d) db) cs) : KeysX ((Sys.boot env d (defs d) db).run cs).db := by
  obtain ⟨_, clk', h⟩ := run_no_assert d cs _ clk (bgOk d env) (kinv_boot d env db clk hk) (runOkV_runOk d cs clk _ hok)
  exact h.keys

/-! ### the naming hypothesis, discharged

  `RunOkV` asks that thread ids started by a tick are not in use.  Proofs/FreshIds.lean derives that from what a
  client and an operator actually control: request ids are unique and not of the form `<BackgroundName>:<n>`, and the
  signal timeout is positive.  `RunOkF` is `RunOkV` with that in place of the per-tick condition. -/

def StepOkF (used : List String) (clk : Time) (s : Sys) : Choice → Prop
  | .submit tid r => ValidReq r ∧ tid ∉ used ∧ NotBg tid
  | .tick t => clk ≤ t
  | .complete id c => ∀ e ∈ s.pending, e.1 = id → KindOk e.2 c
  | _ => True

def RunOkF : List String → Time → Sys → List Choice → Prop
  | _, _, _, [] => True
  | used, clk, s, c :: cs => StepOkF used clk s c ∧ RunOkF (usedAfter used c) (clkAfter clk c) (s.step c).1 cs

theorem runOkF_runOkV : ∀ (cs : List Choice) (used : List String) (clk : Time) (s : Sys), FInv used s → 0 < s.env.cfg.signalTimeout →
    RunOkF used clk s cs → RunOkV clk s cs := by
  intro cs
  induction cs with
  | nil => intro _ _ _ _ _ _; trivial
  | cons c cs ih =>
    intro used clk s hf hpos h
    have h1 := h.1
    have hstep : FInv (usedAfter used c) (s.step c).1 := by
      apply finv_step used s c hf (Int.le_of_lt hpos)
      intro tid r hc
      subst hc
      exact h1.2
    refine ⟨?_, ih _ _ _ hstep (by rw [step_env]; exact hpos) h.2⟩
    cases c with
    | submit tid r => exact h1.1
    | tick t => exact finv_tickOk used s clk t hf hpos h1
    | complete id cp => exact h1
    | execStore items => trivial
    | shutdown => trivial
    | crash => trivial

/-- **the server never asserts, never stops, and its store never asserts** — for every run in which request ids are
    unique and not background-shaped, submitted requests passed validation, the clock does not step back, router / sender
    completions are of their subsystem's kind, and the signal timeout is positive. -/
theorem server_is_safe (d : Dialect) (env : Env) (db : Db) (hk : KeysX db) (hpos : 0 < env.cfg.signalTimeout) (clk : Time) (cs : List Choice)
    (hok : RunOkF [] clk (Sys.boot env d (defs d) db) cs) :
    (∀ e ∈ (Sys.boot env d (defs d) db).runEvents cs, ∀ tid site, e ≠ .panic tid site) ∧
    (∀ e ∈ (Sys.boot env d (defs d) db).runErrs cs, ∀ m, e ≠ .assertion m) ∧
    ((Sys.boot env d (defs d) db).run cs).halted = none ∧
    KeysX ((Sys.boot env d (defs d) db).run cs).db := by
  have hv := runOkF_runOkV cs [] clk _ (finv_boot env d (defs d) db) hpos hok
  exact ⟨server_never_asserts d env db hk clk cs hv, store_never_asserts d env db hk clk cs hv,
    server_never_halts d env db hk clk cs hv, reachable_keys d env db hk clk cs hv⟩

/-- executable form of `RunOkF` (request ids are accepted when new and starting with a character other than `T`, `S`, `E`) -/
def freshTidB (used : List String) (tid : String) : Bool :=
  !used.contains tid && (match tid.toList with | c :: _ => c != 'T' && c != 'S' && c != 'E' | [] => false)

theorem freshTidB_sound (used : List String) (tid : String) (h : freshTidB used tid = true) : tid ∉ used ∧ NotBg tid := by
  simp only [freshTidB, Bool.and_eq_true, Bool.not_eq_true'] at h
  refine ⟨by simpa using h.1, ?_⟩
  cases hl : tid.toList with
  | nil => simp [hl] at h
  | cons c cs =>
    simp only [hl, Bool.and_eq_true, bne_iff_ne, ne_eq] at h
    exact notBg_of_first tid c cs hl h.2.1.1 h.2.1.2 h.2.2

def runOkFB : List String → Time → Sys → List Choice → Bool
  | _, _, _, [] => true
  | used, clk, s, c :: cs =>
    (match c with
      | .submit tid r => decide (ValidReq r) && freshTidB used tid
      | .tick t => decide (clk ≤ t)
      | .complete id cp => decide (∀ e ∈ s.pending, e.1 = id → KindOk e.2 cp)
      | _ => true) && runOkFB (usedAfter used c) (clkAfter clk c) (s.step c).1 cs

theorem runOkFB_sound : ∀ (cs : List Choice) (used : List String) (clk : Time) (s : Sys), runOkFB used clk s cs = true → RunOkF used clk s cs := by
  intro cs
  induction cs with
  | nil => intro _ _ _ _; trivial
  | cons c cs ih =>
    intro used clk s h
    simp only [runOkFB, Bool.and_eq_true] at h
    refine ⟨?_, ih _ _ _ h.2⟩
    cases c with
    | submit tid r =>
      simp only [Bool.and_eq_true, decide_eq_true_eq] at h
      exact ⟨h.1.1, freshTidB_sound used tid h.1.2⟩
    | tick t => simpa [StepOkF] using h.1
    | complete id cp => simpa [StepOkF] using h.1
    | execStore items => trivial
    | shutdown => trivial
    | crash => trivial

/-- the hypotheses are met by ordinary runs (a test, not the theorem): a create with its router and store
    completions, a crash, a retry whose read fails after processing, another retry — `RunOkV` holds and responses are produced -/
def demoEnv : Env := defaultEnv { url := "http://r", coroutineMaxSize := 10, taskEnqueueDelay := 1000 }
def demoCreate : Req := .createPromise { id := "p", idempotencyKey := some "k", strict := false, param := {}, timeout := 5000, tags := [] }
def demoRun : List Choice :=
  [.submit "r1" demoCreate, .tick 10, .execStore [(⟨"r1", 0⟩, .ok)], .tick 11, .complete ⟨"r1", 1⟩ (.router false ""), .tick 12,
   .execStore [(⟨"r1", 2⟩, .ok)], .tick 13, .crash,
   .submit "r2" demoCreate, .tick 14, .execStore [(⟨"r2", 0⟩, .after)], .tick 15,
   .submit "r3" demoCreate, .tick 16, .execStore [(⟨"r3", 0⟩, .ok)], .tick 17]
#guard runOkB 0 (Sys.boot demoEnv .sqlite (defs .sqlite) {}) demoRun
#guard runOkFB [] 0 (Sys.boot demoEnv .sqlite (defs .sqlite) {}) demoRun
#guard ((Sys.boot demoEnv .sqlite (defs .sqlite) {}).runEvents demoRun).any (fun e => match e with | .respond _ _ => true | _ => false)

/-- an invalid request is exactly one the theorem excludes — e.g. an empty search pattern reaches the kernel's assertion
    in the model as in the code, which is why the front ends must (and do, frontdiff) refuse it -/
example : ¬ ValidReq (.searchPromises { id := "", states := [], tags := [], limit := 1, sortId := none }) := by
  simp [ValidReq]
example : ValidReq (.claimTask { id := "t", counter := 1, processId := "w", ttl := 0 }) := by simp [ValidReq]

end Resonate.C13
