/-
  Properties/C19.lean — receiver resolution is deterministic: tasks go where the routing tag says.

  Model: Model/Resolve.lean (router `TagSource` / `coerce` / stored bytes; sender `UnmarshalChain` / targets /
  `schemeToRecv` / plugin lookup), tied to the real router and sender workers by the `routesend` harness
  (sender through the build-tag `verif` hook).  `url.Parse` is a parameter (`parse`): every theorem holds for every
  parser, the harness supplies Go's.  The message body is stated in C08.message_names_task (built by the
  EnqueueTasks coroutine, tied by sysdiff) and checked field by field on the real body by `routesend`.
-/
import Resonate.Proofs.ResolveLemmas
import Resonate.Model.Poll
import Resonate.Properties.C08
namespace Resonate.C19
open Resolve JsonScan

/-! ### the router: what the routing tag says -/

/-- no tag, no routing -/
theorem no_tag_does_not_route : routeTag none = none := rfl

/-- a tag that is not JSON is kept, character for character, as a logical name -/
theorem plain_tag_is_logical_name (v : List Char) (h : valid v = false) : routeTag (some v) = some (.logical v) := by
  simp [routeTag, h]

/-- a tag that is JSON routes only as a physical receiver with a non-empty type; every other JSON value
    (numbers, strings, arrays, literals, objects without a type, with a non-string type or with an unknown
    field) does not route — it is never mistaken for a logical name -/
theorem json_tag_physical_or_unrouted (v : List Char) (h : valid v = true) :
    routeTag (some v) = none ∨ ∃ t d, routeTag (some v) = some (.physical t d) ∧ t ≠ [] := by
  simp only [routeTag, h, if_true]
  cases members v with
  | none => left; rfl
  | some ms =>
    simp only
    split
    · rename_i hc
      right
      refine ⟨(recvFields ms).type, (recvFields ms).data, rfl, ?_⟩
      simp only [Bool.and_eq_true, Bool.not_eq_true', List.isEmpty_eq_false_iff] at hc
      intro he; exact hc.2 he
    · left; rfl

/-! ### the sender: where the stored address resolves to -/

/-- the sender reads back exactly the logical name the router stored -/
theorem logical_name_round_trip (n : List Char) : readStored (recvBytes (.logical n)) = .logical n := by
  have h1 := topKind_encStr n
  have h0 : skipWs (Json.encStr n) = Json.encStr n := by
    unfold Json.encStr skipWs
    simp [isWs]
  have h2 : Json.decStr (skipWs (Json.encStr n)) = some (n, []) := by
    rw [h0]
    have := Json.decStr_encStr n []
    rwa [List.append_nil] at this
  unfold readStored recvBytes
  rw [h1]
  simp only
  rw [h2]

/-- a configured target of that name wins, whatever the name looks like (even if it parses as a URL) -/
theorem logical_name_resolves_to_configured_target (targets : List Target) (plugins : List String)
    (parse : String → Option Url) (n : List Char) (t : Target)
    (ht : targets.find? (·.name == String.ofList n) = some t) :
    dispatch targets plugins parse (recvBytes (.logical n)) =
      if plugins.contains t.type then .handed t.type t.data else .unknownPlugin t.type := by
  simp [dispatch, logical_name_round_trip, ht]

/-- otherwise the URL scheme decides: http / https go to the http transport with the URL as written by `u.String()` -/
theorem logical_name_by_scheme_http (targets : List Target) (plugins : List String) (parse : String → Option Url)
    (n : List Char) (u : Url) (hno : targets.find? (·.name == String.ofList n) = none)
    (hp : parse (String.ofList n) = some u) (hs : u.scheme = "http" ∨ u.scheme = "https") :
    dispatch targets plugins parse (recvBytes (.logical n)) =
      if plugins.contains "http" then .handed "http" (jsonObj [("url", u.str)]) else .unknownPlugin "http" := by
  have : schemeToRecv parse (String.ofList n) = some ("http", jsonObj [("url", u.str)]) := by
    rcases hs with hs | hs <;> simp [schemeToRecv, hp, hs]
  simp [dispatch, logical_name_round_trip, hno, this]

/-- `poll://group/id` goes to the poll transport addressed to that group and id (id omitted when empty) -/
theorem logical_name_by_scheme_poll (targets : List Target) (plugins : List String) (parse : String → Option Url)
    (n : List Char) (u : Url) (hno : targets.find? (·.name == String.ofList n) = none)
    (hp : parse (String.ofList n) = some u) (hs : u.scheme = "poll") :
    dispatch targets plugins parse (recvBytes (.logical n)) =
      let data := jsonObj ([("group", u.host)] ++ if pollId u.path != "" then [("id", pollId u.path)] else [])
      if plugins.contains "poll" then .handed "poll" data else .unknownPlugin "poll" := by
  have : schemeToRecv parse (String.ofList n) =
      some ("poll", jsonObj ([("group", u.host)] ++ if pollId u.path != "" then [("id", pollId u.path)] else [])) := by
    simp [schemeToRecv, hp, hs]
  simp [dispatch, logical_name_round_trip, hno, this]

/-- an unknown name (no target, no known scheme) is a FAILED hand-off — never a message to some transport -/
theorem unknown_name_fails (targets : List Target) (plugins : List String) (parse : String → Option Url) (n : List Char)
    (hno : targets.find? (·.name == String.ofList n) = none) (hs : schemeToRecv parse (String.ofList n) = none) :
    dispatch targets plugins parse (recvBytes (.logical n)) = .unknownReceiver := by
  simp [dispatch, logical_name_round_trip, hno, hs]

/-- whatever bytes are stored: a message is handed only to a registered transport, and only with an address that
    the stored bytes determine (physical: the stored type and data; logical: the target of that name, else the scheme) -/
theorem handed_only_where_resolved (targets : List Target) (plugins : List String) (parse : String → Option Url)
    (bytes : List Char) (p d : String) (h : dispatch targets plugins parse bytes = .handed p d) :
    plugins.contains p = true ∧
    ((∃ t dd, readStored bytes = .physical t dd ∧ p = String.ofList t ∧ d = (match dd with | some raw => String.ofList raw | none => "")) ∨
     (∃ n, readStored bytes = .logical n ∧
        ((∃ t, targets.find? (·.name == String.ofList n) = some t ∧ p = t.type ∧ d = t.data) ∨
         (targets.find? (·.name == String.ofList n) = none ∧ schemeToRecv parse (String.ofList n) = some (p, d))))) := by
  unfold dispatch at h
  cases hr : readStored bytes with
  | invalid => simp [hr] at h
  | neither => simp [hr] at h
  | physical t dd =>
    simp only [hr] at h
    split at h
    · rename_i hc; cases h; exact ⟨hc, .inl ⟨t, dd, rfl, rfl, rfl⟩⟩
    · cases h
  | logical n =>
    simp only [hr] at h
    cases ht : targets.find? (·.name == String.ofList n) with
    | some t =>
      simp only [ht] at h
      split at h
      · rename_i hc; cases h; exact ⟨hc, .inr ⟨n, rfl, .inl ⟨t, ht, rfl, rfl⟩⟩⟩
      · cases h
    | none =>
      simp only [ht] at h
      cases hs : schemeToRecv parse (String.ofList n) with
      | none => simp [hs] at h
      | some r =>
        obtain ⟨ty, da⟩ := r
        simp only [hs] at h
        split at h
        · rename_i hc; cases h; exact ⟨hc, .inr ⟨n, rfl, .inr ⟨ht, hs⟩⟩⟩
        · cases h

/-- a failed hand-off is retried, not lost: whatever the sender answers other than success, the task goes back to
    `init` with one more attempt (C08.handoff_outcome), to be picked up by the next EnqueueTasks cycle -/
theorem failed_handoff_is_retried (e : Int) (r : TaskRow) (o : Cpl) (hn : r.mesg.type ≠ "notify") (ho : o ≠ .sender true) :
    ∃ u : UpdateTaskCmd, Coro.enqueueOutcomeCmd e r o = .updateTask u ∧ u.state = T_INIT ∧ u.attempt = r.attempt + 1 ∧ u.id = r.id := by
  obtain ⟨u, h1, h2, -, -, -, -, -, h8⟩ := C08.handoff_outcome e r o
  exact ⟨u, h1, (h8 hn ho).1, (h8 hn ho).2, h2⟩

/-! ### the poll address the sender writes is the address the poll transport reads (link to C18) -/

theorem poll_address_round_trip (g i : String) :
    Poll.decodeData (jsonObj [("group", g), ("id", i)]) = .ok g i ∧ Poll.decodeData (jsonObj [("group", g)]) = .ok g "" := by
  have key : ∀ m : List (String × String), m ≠ [] →
      Poll.decodeData (jsonObj m) = .ok (String.ofList (Poll.field "group".toList (m.map fun kv => (kv.1.toList, kv.2.toList))))
        (String.ofList (Poll.field "id".toList (m.map fun kv => (kv.1.toList, kv.2.toList)))) := by
    intro m _
    unfold Poll.decodeData jsonObj
    have hne : (String.ofList (Json.encMap (m.map fun kv => (kv.1.toList, kv.2.toList))) == "null") = false := by
      apply beq_false_of_ne
      intro h
      have := congrArg String.toList h
      simp [Json.encMap] at this
    simp only [hne, Bool.false_eq_true, if_false, String.toList_ofList, Json.decMap_encMap]
  refine ⟨?_, ?_⟩
  · rw [key _ (by simp)]
    simp [Poll.field, Poll.asciiLower]
  · rw [key _ (by simp)]
    simp [Poll.field, Poll.asciiLower]

/-! ### non-vacuity (evaluated at build time by `#guard`: tests of the executable model, not theorems):
    the three classes of tag, and a resolution of each kind -/

#guard routeTag (some "poll://g/w1".toList) == some (.logical "poll://g/w1".toList)
#guard routeTag (some "{\"type\":\"http\",\"data\":{\"url\":\"http://x\"}}".toList) == some (.physical "http".toList (some "{\"url\":\"http://x\"}".toList))
#guard routeTag (some "[1]".toList) == none && routeTag (some "{\"type\":\"\"}".toList) == none && routeTag (some "{\"type\":\"poll\",\"x\":1}".toList) == none
#guard routeTag (some "null".toList) == none && routeTag (some "7".toList) == none && routeTag (some "\"s\"".toList) == none
#guard dispatch (effectiveTargets []) ["poll", "http"] (fun _ => none) (recvBytes (.logical "default".toList)) == .handed "poll" "{\"group\":\"default\"}"
#guard dispatch [] ["poll", "http"] (fun _ => some { scheme := "poll", host := "g", path := "/w1", str := "poll://g/w1" }) (recvBytes (.logical "poll://g/w1".toList)) == .handed "poll" "{\"group\":\"g\",\"id\":\"w1\"}"
#guard dispatch [] ["poll"] (fun _ => none) (recvBytes (.logical "nowhere".toList)) == .unknownReceiver
#guard dispatch [] ["poll"] (fun _ => none) "null".toList == .bothNil

end Resonate.C19
