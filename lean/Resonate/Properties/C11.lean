/-
  Properties/C11.lean — background processing converges for every batch size.

  Each of the five background coroutines is a sweep: read up to `batch` items that need attention, write the fix for
  exactly those.  The theorems give, per sweep, a measure on the database that one complete successful cycle of the
  idle server (clients stopped, the clock read `t`) decreases by `min batch measure` — hence zero after
  ⌈measure / batch⌉ cycles, for every batch size ≥ 1 — and show that the coroutine submits exactly the transactions the
  measure lemma is about.  A failed cycle (store / router / transport error) writes nothing or less and is retried by
  the next one: it delays, never prevents.  Model: Model/Coroutines.lean, tied to the real coroutines by sysdiff, whose
  quiesce phase also checks the convergence conditions on the implementation's own database.
-/
import Resonate.Proofs.Converge
import Resonate.Proofs.Fair
import Resonate.Proofs.CoBasics
import Resonate.Model.System
import Resonate.Properties.C01
namespace Resonate.C11
open SqlSpec Coro

/-! ### promises past their timeout -/

/-- what the time-out sweep submits for the rows it read: one completion block per row (time-out state from the
    promise's own tags, completion time = its timeout) -/
theorem timeout_sweep_submits (env : Env) (t0 t : Time) (rows : List PromiseRow)
    (h1 : rows.any (fun r => r.state != P_PENDING) = false) (h2 : rows.any (fun r => !(decide (r.timeout ≤ t))) = false)
    (hne : rows.isEmpty = false) :
    ((timeoutPromises env t0).next t [.store [.promises rows]]).subs = (sweepTxs rows t).map Subm.store := by
  simp only [timeoutPromises, Co.next, h1, h2, hne, Bool.false_eq_true, if_false, Co.subs, sweepTxs, List.map_map]
  rfl

/-- one complete successful cycle decreases the overdue set by `min batch overdue` … -/
theorem timeout_cycle (d : Dialect) (db db' : Db) (t : Time) (b : Nat) (rss : List (List Res)) (hk : PromIds db)
    (hx : db.execTxs (defs d) (sweepTxs (sweepRows d db t b) t) = .ok (db', rss)) :
    overdue t db' = overdue t db - min b (overdue t db) := Resonate.timeout_cycle d db db' t b rss hk hx

/-- … hence after `k` cycles with `k · batch ≥ overdue` (⌈overdue / batch⌉ cycles, any batch size ≥ 1) no promise is
    pending past its timeout -/
theorem timeout_converges (d : Dialect) (t : Time) (b : Nat) (k : Nat) (dbs : Nat → Db)
    (hk : PromIds (dbs 0)) (hc : ∀ i, i < k → TimeoutCycle d t b (dbs i) (dbs (i + 1))) (hkb : overdue t (dbs 0) ≤ k * b) :
    overdue t (dbs k) = 0 := Resonate.timeout_converges d t b k dbs hk hc hkb

/-! ### locks past their lease -/

theorem lock_sweep_submits (t0 : Time) : (timeoutLocks t0).subs = [.store [.timeoutLocks { timeout := t0 }]] := rfl

/-- ONE sweep removes every lock whose lease has run out (no batch limit) -/
theorem lock_converges (d : Dialect) (db db' : Db) (t : Time) (r : Res)
    (h : db.exec (defs d) (.timeoutLocks { timeout := t }) = .ok (db', r)) : expiredLocks t db' = 0 := lock_sweep d db db' t r h

/-! ### enqueued / claimed tasks past their lease or timeout -/

/-- what the lease sweep submits: ONE transaction with one guarded update per row read (back to `init` with the next
    counter while the task's own timeout has not passed, else `timed out`) -/
theorem task_sweep_submits (env : Env) (t0 t : Time) (rows : List TaskRow)
    (h1 : rows.any (fun r => (r.state &&& (T_INIT ||| T_ENQUEUED ||| T_CLAIMED)) == 0) = false) (hne : rows.isEmpty = false) :
    ((timeoutTasks env t0).next t [.store [.tasks rows]]).subs = [.store (rows.map fun r => .updateTask (sweepTaskCmd t r))] := by
  have hmap : (rows.map fun r =>
      if t < r.timeout then
        Cmd.updateTask { id := r.id, processId := none, state := T_INIT, counter := r.counter + 1, attempt := 0, ttl := 0, expiresAt := 0, completedOn := none, currentStates := [r.state], currentCounter := r.counter }
      else
        Cmd.updateTask { id := r.id, processId := none, state := T_TIMEDOUT, counter := r.counter, attempt := r.attempt, ttl := 0, expiresAt := 0, completedOn := some r.timeout, currentStates := [r.state], currentCounter := r.counter })
      = rows.map fun r => Cmd.updateTask (sweepTaskCmd t r) := by
    apply List.map_congr_left
    intro r _
    unfold sweepTaskCmd
    split <;> rfl
  have hne2 : (rows.map fun r => Cmd.updateTask (sweepTaskCmd t r)).isEmpty = false := by
    cases rows with
    | nil => simp at hne
    | cons _ _ => rfl
  simp only [timeoutTasks, Co.next, h1, hne, Bool.false_eq_true, if_false, hmap, hne2, Co.subs]

theorem task_cycle (d : Dialect) (db db' : Db) (t : Time) (b : Nat) (rs : List Res) (hk : TaskIds db) (hl : LegalTaskStates db)
    (hx : db.execTx (defs d) ((sweepTaskRows d db t b).map fun r => .updateTask (sweepTaskCmd t r)) = .ok (db', rs)) :
    lateTasks t db' = lateTasks t db - min b (lateTasks t db) := Resonate.task_cycle d db db' t b rs hk hl hx

/-! ### schedules behind the clock -/

/-- firing one due occurrence strictly reduces the total lag (C10: the occurrence fired is the oldest missed one, none is
    skipped); with the clock standing still a schedule that is `n` occurrences behind has caught up after `n` cycles.
    NOTE (finding F16, recorded in KNOWN_FINDINGS): each cycle fires ONE occurrence per schedule and cycles are at least
    `signal timeout` apart, so while the clock runs a schedule whose period is not longer than the signal timeout
    (e.g. `* * * * * *` with the default 1 s) never reduces its lag after a downtime. -/
theorem schedule_progress (d : Dialect) (t : Time) (db : Db) (c : UpdateScheduleCmd) (occ : Int) (hl : c.lastRunTime = some occ)
    (hlt : occ < c.nextRunTime) (hdue : occ ≤ t) (hex : ∃ r ∈ db.schedules, r.id = c.id ∧ r.nextRunTime = occ) :
    ∃ db' r', db.exec (defs d) (.updateSchedule c) = .ok (db', r') ∧ lag t db' < lag t db :=
  firing_reduces_lag d t db c occ hl hlt hdue hex

/-- **F18 (known finding) as a theorem about the model.**  A run of the schedule sweep whose whole batch consists of
    schedules whose id template does not evaluate submits nothing and finishes: no `UpdateSchedule` is written, the rows keep
    their next run time, and — `ORDER BY next_run_time ASC` — the same rows are the batch of every later run.  With
    `scheduleBatchSize` such schedules the sweep never reaches another schedule.  (The full statement of C11 — no schedule
    with a satisfiable cron has a next run time in the past — is therefore false of the model and of the code; the
    theorems above are its part for schedules the sweep can fire.) -/
theorem skipped_batch_writes_nothing_F18 (env : Env) (t0 t : Time) (rows : List ScheduleRow)
    (hdue : ∀ r ∈ rows, r.nextRunTime ≤ t)
    (hbad : ∀ r ∈ rows, env.genId r.toSchedule.promiseId r.toSchedule.id r.toSchedule.nextRunTime = none) :
    (schedulePromises env t0).next t [.store [.schedules rows]] = .done none := by
  have h1 : rows.any (fun r => !(decide (r.nextRunTime ≤ t))) = false := by
    rw [List.any_eq_false]
    intro r hr
    simp [hdue r hr]
  have h2 : ∀ {β : Type} (f : ScheduleRow → Option β), (∀ r ∈ rows, f r = none) → rows.filterMap f = [] := by
    intro β f hf
    rw [List.filterMap_eq_nil_iff]
    exact hf
  simp only [schedulePromises, Co.next, h1, Bool.false_eq_true, if_false]
  rw [h2 _ (by
    intro r hr
    show (match env.cronNext r.toSchedule.cron r.toSchedule.nextRunTime, env.genId r.toSchedule.promiseId r.toSchedule.id r.toSchedule.nextRunTime with
      | some _, some _ => _
      | _, _ => none) = none
    rw [hbad r hr]
    split <;> simp_all)]
  rfl

/-- **F16 (known finding), capacity form**: a run fires at most one occurrence per row it read, hence at most
    `scheduleBatchSize` occurrences (`C10.read_schedules_limit`-style bound on the rows is the store's `LIMIT`) -/
theorem sweep_fires_at_most_one_per_row (env : Env) (t0 t : Time) (rows : List ScheduleRow) :
    ((schedulePromises env t0).next t [.store [.schedules rows]]).subs.length ≤ rows.length := by
  simp only [schedulePromises, Co.next]
  split
  · simp [Co.subs]
  · split
    · simp [Co.subs]
    · simp only [Co.subs, List.length_map]
      exact List.length_filterMap_le _ _

/-- the model's cron semantics (grid crons) always yields a strictly later time -/
theorem grid_next_is_later (cron : String) (p : Int) (t : Int) (hp : 0 < p) (h : cronGrid cron = some p) :
    ∃ n, cronNextModel cron t = some n ∧ t < n := by
  refine ⟨_, C10.cronNextModel_grid cron p t h, ?_⟩
  have h0 := Int.emod_lt_of_pos t hp
  have h2 := Int.emod_add_ediv_mul t p
  have h1 : (t / p + 1) * p = t / p * p + p := by rw [Int.add_mul, Int.one_mul]
  rw [h1]
  omega

/-- **F19 (known finding) as a statement about the model.**  What the lease sweep reads is a PREFIX, in the order (root promise
    id, sort id), of the tasks that are enqueued / claimed and past their lease or timeout: a late task with at least `limit` late
    tasks before it in that order is not in the batch — and when those are unclaimed tasks that are re-dispatched after every
    reset and expire again one enqueue delay later, it never is. -/
theorem lease_sweep_reads_a_prefix_in_root_order_F19 (d : Dialect) (db : Db) (c : ReadTasksCmd) (hs : c.states.isEmpty = false) :
    db.exec (defs d) (.readTasks c) =
      .ok (db, .tasks ((takeLimit c.limit ((db.tasks.filter (taskSelectAll_where c)).mergeSort taskOrdLe)).map taskSelectAll_proj)) := by
  simp [Db.exec, hs, defs, taskSelectAll_limit]

/-! ### tasks waiting to be dispatched -/

/-- one dispatch cycle whose hand-offs all succeed moves every selected task out of `init`; C08.dispatch_selection says
    which tasks are selected (one per root, oldest first, up to the batch size) -/
theorem dispatch_progress (d : Dialect) (e : Int) (rows : List TaskRow) (db db' : Db) (rs : List Res)
    (hk : TaskIds db) (hp : List.Pairwise (fun a b : TaskRow => a.id ≠ b.id) rows)
    (hall : ∀ r ∈ rows, ∃ x ∈ db.tasks, x.id = r.id ∧ x.counter = r.counter ∧ isInit x = true)
    (hx : db.execTx (defs d) (rows.map fun r => enqueueOutcomeCmd e r (.sender true)) = .ok (db', rs)) :
    initTasks db' + rows.length = initTasks db := Resonate.dispatch_progress d e rows db db' rs hk hp hall hx

/-! ### the kernel starts each sweep again once the signal timeout has passed and the previous instance has finished -/

theorem sweep_restarts (env : Env) (live : List Thread) (t : Time) (b : BgState)
    (hdue : env.cfg.signalTimeout ≤ t - b.last) (hdone : bgRunningDone live b = true) (hroom : 0 < env.cfg.coroutineMaxSize) :
    (startBg env true false live t [b] 0).2.1.map (·.tid) = [bgName b.kind ++ ":" ++ toString t] := by
  simp [startBg, hdue, hdone, hroom, newThread]

/-! ### … for every size of the scheduler's in-queue (the fix of finding F17) -/

/-- the registry a tick leaves is one `cycleBg` of the registry it found -/
theorem tick_registry_is_cycle (s : Sys) (t : Time) (hh : s.halted = none) (he : s.bgEnabled = true)
    (hd : (s.apiDone && s.apiQ.isEmpty) = false) :
    (s.tick t).1.bg = (cycleBg s.env (deliverAll s.threads (s.cq.take s.env.cfg.completionBatchSize)) t s.bg).1 := by
  simp only [Sys.tick, hh, he, hd, cycleBg, Option.isSome_none, Bool.false_eq_true, if_false]

/-- over consecutive cycles in which every registered sweep is due (the signal timeout has passed, its previous instance
    has finished), the sweep registered at position `i` is started at cycle `i` at the latest: all five sweeps run within
    five cycles for every in-queue size ≥ 1 (with one slot: one sweep per cycle, in rotation) -/
theorem every_sweep_gets_its_turn (env : Env) (hmax : 0 < env.cfg.coroutineMaxSize)
    (ts : Nat → Time) (lives : Nat → List Thread) (regs : Nat → List BgState)
    (hstep : ∀ j, regs (j + 1) = (cycleBg env (lives j) (ts j) (regs j)).1)
    (hdue : ∀ j, ∀ b ∈ regs j, BgDue env (lives j) (ts j) b)
    (i : Nat) (hi : i < (regs 0).length) :
    some ((regs 0)[i]).kind ∈ startedKinds (cycleBg env (lives i) (ts i) (regs i)).2 :=
  Resonate.every_sweep_gets_its_turn env hmax ts lives regs hstep hdue i hi

/-- an in-queue of ONE entry, five cycles one signal timeout apart, nothing live: the sweeps started are the five kinds, one per cycle -/
example :
    let env := defaultEnv { coroutineMaxSize := 1 }
    let r0 : List BgState := bgOrder.map fun k => { kind := k }
    let c0 := cycleBg env [] 1000 r0
    let c1 := cycleBg env [] 2000 c0.1
    let c2 := cycleBg env [] 3000 c1.1
    let c3 := cycleBg env [] 4000 c2.1
    let c4 := cycleBg env [] 5000 c3.1
    [c0, c1, c2, c3, c4].map (fun c => startedKinds c.2) =
      [[some .timeoutPromises], [some .schedulePromises], [some .timeoutLocks], [some .enqueueTasks], [some .timeoutTasks]] := by decide

/-! ### non-vacuity -/

/-- three overdue promises, batch size 2: 2 rows are read (then 1, then 0) -/
example :
    let db : Db := { promises := [ { C01.exRow with id := "a" }, { C01.exRow with id := "b" }, { C01.exRow with id := "c" } ], seqP := 3 }
    overdue 10 db = 3 ∧ (sweepRows .sqlite db 10 2).length = 2 := by decide

end Resonate.C11
