/-
  Properties/C03.lean — create and complete are idempotent under retries; at most one takes effect.
  Decision tables stated outright (every key combination × strict × state × clock position) and the
  store facts that make repeats harmless.
-/
import Resonate.Proofs.CoBasics
import Resonate.Proofs.PromIds
import Resonate.Model.SqlSpec
import Resonate.Proofs.StoreBasics
import Resonate.Proofs.PromiseInv
import Resonate.Proofs.SysDb
namespace Resonate.C03
open Resonate Coro SqlSpec

/-! ### keys match only when both are present and equal -/
theorem keyMatch_none_left (k : Option String) : keyMatch none k = false := by cases k <;> rfl
theorem keyMatch_none_right (k : Option String) : keyMatch k none = false := by cases k <;> rfl
theorem keyMatch_some (a b : String) : keyMatch (some a) (some b) = (a == b) := rfl

/-! ### CreatePromise / CreatePromiseAndTask on an existing promise -/

/-- the promise exists and is not overdue: nothing is written; the answer is OK with the promise as it
    stands iff the request carries the creation key (and, in strict mode, the promise is still pending);
    otherwise already-exists -/
theorem create_existing (req : CreatePromiseReq) (tc : Option CreateTaskCmd) (t0 t : Time) (r : PromiseRow)
    (hn : ¬ (r.state = 1 ∧ r.timeout ≤ t)) :
    (createPromiseInner req tc false t0).next t (gotRow r) =
      .done (some (.promise
        (if !(req.strict && r.state != 1) && keyMatch r.idempotencyKeyForCreate req.idempotencyKey then S_OK else S_PROMISE_ALREADY_EXISTS)
        (some r.toPromise))) := by
  unfold createPromiseInner
  have h1 : (r.toPromise.state == P_PENDING && decide (r.toPromise.timeout ≤ t)) = false := by
    simp only [PromiseRow.toPromise, P_PENDING, Bool.and_eq_false_iff, beq_eq_false_iff_ne, decide_eq_false_iff_not]
    by_cases hs : r.state = 1
    · right; exact decide_eq_false (fun h => hn ⟨hs, h⟩)
    · left; exact hs
  simp only [Co.next, gotRow, readPromiseRow, h1, Bool.false_eq_true, if_false]
  show (if (!(req.strict && r.state != 1) && keyMatch r.idempotencyKeyForCreate req.idempotencyKey) = true then _ else _) = _
  split <;> rfl

/-- same table for create-with-task; in particular a repeat never yields a task object -/
theorem create_task_existing (req : CreatePromiseReq) (tc : Option CreateTaskCmd) (t0 t : Time) (r : PromiseRow)
    (hn : ¬ (r.state = 1 ∧ r.timeout ≤ t)) :
    (createPromiseInner req tc true t0).next t (gotRow r) =
      .done (some (.promiseTask
        (if !(req.strict && r.state != 1) && keyMatch r.idempotencyKeyForCreate req.idempotencyKey then S_OK else S_PROMISE_ALREADY_EXISTS)
        (some r.toPromise) none)) := by
  unfold createPromiseInner
  have h1 : (r.toPromise.state == P_PENDING && decide (r.toPromise.timeout ≤ t)) = false := by
    simp only [PromiseRow.toPromise, P_PENDING, Bool.and_eq_false_iff, beq_eq_false_iff_ne, decide_eq_false_iff_not]
    by_cases hs : r.state = 1
    · right; exact decide_eq_false (fun h => hn ⟨hs, h⟩)
    · left; exact hs
  simp only [Co.next, gotRow, readPromiseRow, h1, Bool.false_eq_true, if_false]
  show (if (!(req.strict && r.state != 1) && keyMatch r.idempotencyKeyForCreate req.idempotencyKey) = true then _ else _) = _
  split <;> simp

/-- the promise exists, is pending and overdue: the ONLY write a repeat may cause is the time-out
    completion; afterwards OK iff non-strict and keys match, the body being the timed-out promise -/
theorem create_existing_overdue (req : CreatePromiseReq) (tc : Option CreateTaskCmd) (t0 t : Time) (r : PromiseRow)
    (hs : r.state = 1) (ht : r.timeout ≤ t) :
    ∃ k, (createPromiseInner req tc false t0).next t (gotRow r) = .yield [.store (completeTx (timeoutCmd req.id r.toPromise) t)] k ∧
      ∀ t2 n c, k t2 (blockDone 1 n c) = .done (some (.promise
        (if !req.strict && keyMatch r.idempotencyKeyForCreate req.idempotencyKey then S_OK else S_PROMISE_ALREADY_EXISTS)
        (some (withCompleted r.toPromise (timeoutCmd req.id r.toPromise))))) := by
  unfold createPromiseInner
  simp only [Co.next, gotRow, readPromiseRow, PromiseRow.toPromise, hs, P_PENDING, beq_self_eq_true, ht, decide_true, Bool.and_self, if_true]
  refine ⟨_, rfl, ?_⟩
  intro t2 n c
  simp [blockDone, completeOut]

/-! ### CompletePromise on an already completed promise -/

theorem alreadyCompleted_table :
    alreadyCompletedStatus 2 = some S_PROMISE_ALREADY_RESOLVED ∧ alreadyCompletedStatus 4 = some S_PROMISE_ALREADY_REJECTED ∧
    alreadyCompletedStatus 8 = some S_PROMISE_ALREADY_CANCELED ∧ alreadyCompletedStatus 16 = some S_PROMISE_ALREADY_TIMEDOUT := by decide

/-- a completed promise is never changed by a completion request: no write at all; OK iff the request carries
    the completion key (and, in strict mode, asks for the state the promise is in) — or the promise timed out
    and the request is non-strict; otherwise the already-<state> status -/
theorem complete_completed (req : CompletePromiseReq) (t0 t : Time) (r : PromiseRow) (st : Nat)
    (hs : r.state ≠ 1) (hst : alreadyCompletedStatus r.state = some st) :
    (completePromise req t0).next t (gotRow r) =
      .done (some (.promise
        (if (!(req.strict && r.state != req.state) && keyMatch r.idempotencyKeyForComplete req.idempotencyKey)
              || (!req.strict && r.state == P_TIMEDOUT) then S_OK else st)
        (some r.toPromise))) := by
  unfold completePromise
  have h1 : (r.toPromise.state == P_PENDING) = false := by simpa [PromiseRow.toPromise, P_PENDING] using hs
  simp only [Co.next, gotRow, readPromiseRow, h1, Bool.false_eq_true, if_false]
  have : alreadyCompletedStatus r.toPromise.state = some st := hst
  rw [this]
  rfl

/-- an unknown promise cannot be completed -/
theorem complete_missing (req : CompletePromiseReq) (t0 t : Time) :
    (completePromise req t0).next t gotNone = .done (some (.promise S_PROMISE_NOT_FOUND none)) := by
  unfold completePromise; rfl

/-! ### store: repeats change nothing -/

/-- creating over an existing id inserts neither a promise nor a task -/
theorem createPromiseAndTask_existing (d : Dialect) (db : Db) (c : CreatePromiseAndTaskCmd)
    (h : ∃ r ∈ db.promises, r.id = c.promiseCommand.id) :
    ∃ db', db.exec (defs d) (.createPromiseAndTask c) = .ok (db', .rows2 0 0) ∧ db'.promises = db.promises ∧ db'.tasks = db.tasks ∧
      db'.callbacks = db.callbacks := by
  obtain ⟨r, hr, hid⟩ := h
  have : db.promises.any (fun r => r.id == c.promiseCommand.id) = true := by
    simp only [List.any_eq_true]; exact ⟨r, hr, by simp [hid]⟩
  simp only [Db.exec, Db.createPromise, this, if_true]
  exact ⟨_, rfl, rfl, rfl, rfl⟩

/-- a completion takes effect (reports a row) only on a pending promise, and after it no promise with that
    id is pending any more — so, ids being unique and completed rows final (C01), a second completion of the
    same id can never report a row: at most one completion per promise id ever takes effect -/
theorem completion_takes_effect_once (d : Dialect) (db db' : Db) (c : UpdatePromiseCmd) (n : Nat)
    (h : db.exec (defs d) (.updatePromise c) = .ok (db', .rows n)) :
    (0 < n → ∃ r ∈ db.promises, r.id = c.id ∧ r.state = 1) ∧ (∀ r ∈ db'.promises, r.id = c.id → r.state ≠ 1) := by
  simp only [Db.exec] at h
  split at h
  · cases h
  · rename_i hs
    injection h with h; injection h with hdb hr
    injection hr with hr
    have hok : promiseStateOk c.state = true := by simpa using hs
    refine ⟨?_, ?_⟩
    · intro hn
      have : (db.promises.filter ((defs d).promiseUpdate_where c)) ≠ [] := by
        intro h0; simp [countP, h0] at hr; omega
      obtain ⟨x, hx⟩ := List.exists_mem_of_ne_nil _ this
      have hw := (List.mem_filter.mp hx).2
      simp only [defs, promiseUpdate_where, Bool.and_eq_true, beq_iff_eq] at hw
      exact ⟨x, (List.mem_filter.mp hx).1, hw.1, hw.2⟩
    · intro r hrm hid
      rw [← hdb] at hrm
      simp only [mem_updateWhere] at hrm
      obtain ⟨x, _, hcase⟩ := hrm
      rcases hcase with ⟨_, rfl⟩ | ⟨hw, rfl⟩
      · simp only [defs, promiseUpdate_set]; exact promiseStateOk_ne_one hok
      · simp only [defs, promiseUpdate_where, Bool.and_eq_false_iff, beq_eq_false_iff_ne, ne_eq] at hw
        rcases hw with hw | hw
        · exact absurd hid hw
        · exact hw

/-- creation takes effect at most once per id: a create over an existing id reports 0 rows and changes no table -/
theorem creation_takes_effect_once (d : Dialect) (db : Db) (c : CreatePromiseCmd) (h : ∃ r ∈ db.promises, r.id = c.id) :
    ∃ db', db.exec (defs d) (.createPromise c) = .ok (db', .rows 0) ∧ db'.promises = db.promises := by
  obtain ⟨r, hr, hid⟩ := h
  have : db.promises.any (fun r => r.id == c.id) = true := by
    simp only [List.any_eq_true]; exact ⟨r, hr, by simp [hid]⟩
  simp only [Db.exec, Db.createPromise, this, if_true]
  exact ⟨_, rfl, rfl⟩

/-! ### the same, over every run of the kernel model -/

/-- **Every run: one promise per id.** Whatever creates, retries (with any key), races, failures, crashes and
    restarts a run contains, no reachable database holds two promises with one id: of any number of creates of
    an id at most one ever took effect. -/
theorem ids_unique_every_run (env : Env) (d : Dialect) (db0 : Db) (h0 : PromIds db0) (cs : List Choice) :
    PromIds ((Sys.boot env d (defs d) db0).run cs).db := by
  have h := run_rel (fun a b => PromIds a → PromIds b) (fun _ h => h) (fun _ _ _ h1 h2 h => h2 (h1 h))
    (Sys.boot env d (defs d) db0) (fun db db' c r hx hi => promIds_exec d db db' c r hi hx) cs
  exact h h0

/-- spelled out: two stored promises with the same id are the same row -/
theorem at_most_one_promise_per_id_every_run (env : Env) (d : Dialect) (db0 : Db) (h0 : PromIds db0) (cs : List Choice)
    (a b : PromiseRow) (ha : a ∈ ((Sys.boot env d (defs d) db0).run cs).db.promises)
    (hb : b ∈ ((Sys.boot env d (defs d) db0).run cs).db.promises) (hid : a.id = b.id) : a = b :=
  promIds_unique (ids_unique_every_run env d db0 h0 cs) ha hb hid

/-- the empty database a fresh server starts from meets the hypothesis -/
example : PromIds ({} : Db) := by simp [PromIds]

/-! ### non-vacuity -/
example : keyMatch (some "k") (some "k") = true ∧ keyMatch none none = false := by decide

end Resonate.C03
