/-
  Properties/C04.lean — timeouts are exact: never pending after the deadline, never timed out before it.
  Decision logic of the four lazy paths and of the sweep, stated outright; `t` is always the tick at which
  the coroutine was resumed after its read (what `c.Time()` returns when the decision is taken).
-/
import Resonate.Proofs.CoBasics
import Resonate.Model.SqlSpec
namespace Resonate.C04
open Resonate Coro SqlSpec

/-! ### the shape of every time-out completion -/

/-- state = timed-out (or resolved when tagged `resonate:timeout=true`), empty value, no idempotency key,
    completion time = the promise's timeout -/
theorem timeout_shape (id : String) (p : Promise) :
    (timeoutCmd id p).state = timedoutState p.tags ∧ (timeoutCmd id p).value = {} ∧
    (timeoutCmd id p).idempotencyKey = none ∧ (timeoutCmd id p).completedOn = p.timeout ∧ (timeoutCmd id p).id = id := ⟨rfl, rfl, rfl, rfl, rfl⟩

theorem timedoutState_cases (tags : SMap) :
    (tags.get? "resonate:timeout" = some "true" ∧ timedoutState tags = P_RESOLVED) ∨
    (tags.get? "resonate:timeout" ≠ some "true" ∧ timedoutState tags = P_TIMEDOUT) := by
  unfold timedoutState
  by_cases h : tags.get? "resonate:timeout" = some "true"
  · left; simp [h]
  · right; exact ⟨h, by simp [h]⟩

/-- the store writes exactly that shape into the row, and only into a pending row -/
theorem store_writes_shape (c : UpdatePromiseCmd) (r : PromiseRow) :
    (promiseUpdate_set c r).state = c.state ∧ (promiseUpdate_set c r).completedOn = some c.completedOn ∧
    (promiseUpdate_set c r).valueData = some c.value.data ∧ (promiseUpdate_set c r).idempotencyKeyForComplete = c.idempotencyKey ∧
    (promiseUpdate_set c r).timeout = r.timeout := ⟨rfl, rfl, rfl, rfl, rfl⟩

/-! ### ReadPromise -/

/-- a pending promise whose timeout has been reached (`timeout ≤ t`, boundary included) is never answered as
    pending: the coroutine first issues the time-out completion block -/
theorem read_overdue (id : String) (t0 t : Time) (r : PromiseRow) (hs : r.state = 1) (ht : r.timeout ≤ t) :
    ∃ k, (readPromise id t0).next t (gotRow r) = .yield [.store (completeTx (timeoutCmd id r.toPromise) t)] k ∧
      (∀ t2 n k', k t2 (blockDone 1 n k') = .done (some (.promise S_OK (some (withCompleted r.toPromise (timeoutCmd id r.toPromise)))))) ∧
      (∀ t2 n k', k t2 (blockDone 0 n k') = .retry) := by
  unfold readPromise
  simp only [Co.next, gotRow, readPromiseRow, PromiseRow.toPromise, hs, P_PENDING, beq_self_eq_true, ht, decide_true, Bool.and_self, if_true]
  exact ⟨_, rfl, fun _ _ _ => by simp [blockDone, completeOut], fun _ _ _ => by simp [blockDone, completeOut]⟩

/-- before the instant (`t < timeout`) a pending promise is reported pending and nothing is written -/
theorem read_not_yet (id : String) (t0 t : Time) (r : PromiseRow) (hs : r.state = 1) (ht : t < r.timeout) :
    (readPromise id t0).next t (gotRow r) = .done (some (.promise S_OK (some r.toPromise))) := by
  unfold readPromise
  have : ¬ r.timeout ≤ t := Int.not_le.mpr ht
  simp [Co.next, gotRow, readPromiseRow, PromiseRow.toPromise, hs, P_PENDING, this]

/-- a completed promise is reported as stored -/
theorem read_completed (id : String) (t0 t : Time) (r : PromiseRow) (hs : r.state ≠ 1) :
    (readPromise id t0).next t (gotRow r) = .done (some (.promise S_OK (some r.toPromise))) := by
  unfold readPromise
  simp [Co.next, gotRow, readPromiseRow, PromiseRow.toPromise, hs, P_PENDING]

/-- hence: no read response reports `pending` once the clock has reached the timeout -/
theorem read_never_pending_past_deadline (id : String) (t0 t : Time) (r : PromiseRow) (p : Promise) (st : Nat)
    (h : (readPromise id t0).next t (gotRow r) = .done (some (.promise st (some p)))) : ¬ (p.state = 1 ∧ p.timeout ≤ t) := by
  by_cases hs : r.state = 1
  · by_cases ht : r.timeout ≤ t
    · obtain ⟨k, hk, _⟩ := read_overdue id t0 t r hs ht
      rw [hk] at h; cases h
    · rw [read_not_yet id t0 t r hs (Int.not_le.mp ht)] at h
      injection h with h; injection h with h; injection h with _ h; injection h with h
      subst h; simp only [PromiseRow.toPromise]; intro hh; exact ht hh.2
  · rw [read_completed id t0 t r hs] at h
    injection h with h; injection h with h; injection h with _ h; injection h with h
    subst h; simp [PromiseRow.toPromise, hs]

/-! ### CompletePromise -/

/-- handled strictly before the timeout: the caller's state, value and key are installed, completed_on = now -/
theorem complete_in_time (req : CompletePromiseReq) (t0 t : Time) (r : PromiseRow) (hs : r.state = 1) (ht : t < r.timeout) :
    ∃ k, (completePromise req t0).next t (gotRow r) =
      .yield [.store (completeTx { id := req.id, state := req.state, value := req.value, idempotencyKey := req.idempotencyKey, completedOn := t } t)] k := by
  unfold completePromise
  simp only [Co.next, gotRow, readPromiseRow, PromiseRow.toPromise, hs, P_PENDING, beq_self_eq_true, if_true, ht]
  exact ⟨_, rfl⟩

/-- handled at or after the timeout (boundary included): the caller's state and value are NEVER installed —
    the only write is the time-out completion -/
theorem complete_too_late (req : CompletePromiseReq) (t0 t : Time) (r : PromiseRow) (hs : r.state = 1) (ht : r.timeout ≤ t) :
    ∃ k, (completePromise req t0).next t (gotRow r) = .yield [.store (completeTx (timeoutCmd req.id r.toPromise) t)] k := by
  unfold completePromise
  have : ¬ t < r.timeout := Int.not_lt.mpr ht
  simp only [Co.next, gotRow, readPromiseRow, PromiseRow.toPromise, hs, P_PENDING, beq_self_eq_true, if_true, this, if_false]
  exact ⟨_, rfl⟩

/-! ### CreatePromise on an existing promise -/

theorem create_existing_overdue (req : CreatePromiseReq) (tc : Option CreateTaskCmd) (wt : Bool) (t0 t : Time) (r : PromiseRow)
    (hs : r.state = 1) (ht : r.timeout ≤ t) :
    ∃ k, (createPromiseInner req tc wt t0).next t (gotRow r) = .yield [.store (completeTx (timeoutCmd req.id r.toPromise) t)] k := by
  unfold createPromiseInner
  simp only [Co.next, gotRow, readPromiseRow, PromiseRow.toPromise, hs, P_PENDING, beq_self_eq_true, ht, decide_true, Bool.and_self, if_true]
  exact ⟨_, rfl⟩

/-! ### the background sweep selects exactly the overdue pending promises (regenerated guard) -/

theorem sweep_guard (c : ReadPromisesCmd) (r : PromiseRow) :
    promiseSelectAll_where c r = true ↔ (r.state = 1 ∧ r.timeout ≤ c.time) := by
  simp [promiseSelectAll_where]

/-- the sweep issues, for each row it read, exactly the time-out completion block of that row -/
theorem sweep_times_out_what_it_read (env : Env) (t0 t : Time) (rows : List PromiseRow) (hne : rows ≠ [])
    (hp : ∀ r ∈ rows, r.state = 1) (ht : ∀ r ∈ rows, r.timeout ≤ t) :
    ∃ k, (timeoutPromises env t0).next t [.store [.promises rows]] =
      .yield (rows.map fun r => .store (completeTx (timeoutCmd r.id r.toPromise) t)) k := by
  unfold timeoutPromises
  have h1 : rows.any (fun r => r.state != P_PENDING) = false := by
    simp only [List.any_eq_false]; intro r hr; simp [P_PENDING, hp r hr]
  have h2 : rows.any (fun r => !decide (r.timeout ≤ t)) = false := by
    simp only [List.any_eq_false]; intro r hr; simp [ht r hr]
  have h3 : rows.isEmpty = false := by cases rows <;> simp_all
  simp only [Co.next, h1, h2, h3, Bool.false_eq_true, if_false]
  exact ⟨_, rfl⟩

/-! ### Finding F5 (witness): a FRESH create with a timeout already in the past answers 201 PENDING -/

/-- the create path never compares the requested timeout with the clock: the created promise is reported
    pending whatever its timeout -/
theorem fresh_create_reports_pending (req : CreatePromiseReq) (t0 t : Time) :
    ∃ k, (createPromise req t0).next t gotNone = .yield [.router (promiseOfCreate { id := req.id, param := req.param, timeout := req.timeout, idempotencyKey := req.idempotencyKey, tags := req.tags, createdOn := t })] k ∧
      (promiseOfCreate { id := req.id, param := req.param, timeout := req.timeout, idempotencyKey := req.idempotencyKey, tags := req.tags, createdOn := t }).state = P_PENDING := by
  unfold createPromise createPromiseInner
  simp only [Co.next, gotNone, readPromiseRow, createPromiseChild]
  exact ⟨_, rfl, rfl⟩

/-! ### non-vacuity -/
example : (timeoutCmd "a" { id := "a", state := 1, param := {}, value := {}, timeout := 7, idempotencyKeyForCreate := none, idempotencyKeyForComplete := none, tags := [("resonate:timeout", "true")], createdOn := none, completedOn := none }).state = 2 := by decide

end Resonate.C04
