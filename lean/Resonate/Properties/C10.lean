/-
  Properties/C10.lean — schedules fire every cron occurrence exactly once, in order, atomically.
  Cron is abstract: `next` is any function with `IsNext Occ next` (least occurrence strictly after);
  robfig/cron itself is modelled, not verified (the executable grid model in Model/Env.lean is validated
  against it by sysdiff on every value a run needs).
-/
import Resonate.Proofs.CoBasics
import Resonate.Proofs.StoreBasics
import Resonate.Model.SqlSpec
import Resonate.Model.Env
namespace Resonate.C10
open Resonate Coro SqlSpec

/-- `next t` is the least occurrence strictly after `t` -/
def IsNext (Occ : Int → Prop) (next : Int → Int) : Prop :=
  ∀ t, Occ (next t) ∧ t < next t ∧ ∀ o, Occ o → t < o → next t ≤ o

/-- the n-th occurrence after `t0` -/
def nthAfter (next : Int → Int) (t0 : Int) : Nat → Int
  | 0 => next t0
  | n + 1 => next (nthAfter next t0 n)

/-- occurrences are visited in strictly increasing order: none twice -/
theorem nth_strictly_increasing (Occ : Int → Prop) (next : Int → Int) (h : IsNext Occ next) (t0 : Int) (n : Nat) :
    nthAfter next t0 n < nthAfter next t0 (n + 1) := (h _).2.1

/-- and none is skipped: every occurrence after `t0` up to the n-th one is one of the first n -/
theorem none_skipped (Occ : Int → Prop) (next : Int → Int) (h : IsNext Occ next) (t0 : Int) :
    ∀ (n : Nat) (o : Int), Occ o → t0 < o → o ≤ nthAfter next t0 n → ∃ i, i ≤ n ∧ o = nthAfter next t0 i := by
  intro n
  induction n with
  | zero =>
    intro o ho hlt hle
    have := (h t0).2.2 o ho hlt
    exact ⟨0, Nat.le_refl _, by simp only [nthAfter] at *; omega⟩
  | succ n ih =>
    intro o ho hlt hle
    by_cases hc : o ≤ nthAfter next t0 n
    · obtain ⟨i, hi, he⟩ := ih o ho hlt hc
      exact ⟨i, Nat.le_succ_of_le hi, he⟩
    · have : nthAfter next t0 (n + 1) ≤ o := (h _).2.2 o ho (by omega)
      exact ⟨n + 1, Nat.le_refl _, by simp only [nthAfter] at *; omega⟩

variable (d : Dialect)

/-! ### the store: a firing advances the schedule by exactly one occurrence, or does nothing -/

/-- `UpdateSchedule id (last := occ) (next := nx)` moves the schedule from occurrence `occ` to `nx` iff its
    next run time still IS `occ`; any other row — and the addressed row when it has already moved on — is
    untouched, and the reported row count is the number of rows moved -/
theorem update_schedule_spec (db : Db) (c : UpdateScheduleCmd) (occ : Int) (hl : c.lastRunTime = some occ) :
    db.exec (defs d) (.updateSchedule c) =
      .ok ({ db with schedules := db.schedules.map fun r =>
                if r.id == c.id && r.nextRunTime == occ then { r with lastRunTime := some r.nextRunTime, nextRunTime := c.nextRunTime } else r },
           .rows ((db.schedules.filter fun r => r.id == c.id && r.nextRunTime == occ).length)) := by
  simp only [Db.exec, defs, updateWhere, countP]
  have : (fun r : ScheduleRow => scheduleUpdate_where c r) = fun r => r.id == c.id && r.nextRunTime == occ := by
    funext r; simp [scheduleUpdate_where, hl, sqlEqO]
  unfold scheduleUpdate_set
  simp only [this]

/-- a firing whose occurrence has already been fired (the schedule moved on) changes no schedule: the same
    occurrence can never advance a schedule twice -/
theorem stale_firing_is_noop (db : Db) (c : UpdateScheduleCmd) (occ : Int) (hl : c.lastRunTime = some occ)
    (hmoved : ∀ r ∈ db.schedules, r.id = c.id → r.nextRunTime ≠ occ) :
    ∃ db', db.exec (defs d) (.updateSchedule c) = .ok (db', .rows 0) ∧ db'.schedules = db.schedules := by
  simp only [Db.exec, defs]
  have hnone : ∀ r ∈ db.schedules, scheduleUpdate_where c r = false := by
    intro r hr
    simp only [scheduleUpdate_where, hl, sqlEqO]
    by_cases hid : r.id = c.id
    · simp [hid, hmoved r hr hid]
    · simp [hid]
  exact ⟨_, by rw [(countP_eq_zero _ _).mpr hnone], updateWhere_of_none _ _ _ hnone⟩

/-- a schedule without a recorded occurrence (`LastRunTime = nil`) can never be advanced -/
theorem update_without_occurrence_is_noop (db : Db) (c : UpdateScheduleCmd) (hl : c.lastRunTime = none) :
    ∃ db', db.exec (defs d) (.updateSchedule c) = .ok (db', .rows 0) ∧ db'.schedules = db.schedules := by
  simp only [Db.exec, defs]
  have hnone : ∀ r ∈ db.schedules, scheduleUpdate_where c r = false := by
    intro r _; simp [scheduleUpdate_where, hl, sqlEqO]
  exact ⟨_, by rw [(countP_eq_zero _ _).mpr hnone], updateWhere_of_none _ _ _ hnone⟩

/-- the due-schedule read returns only schedules whose next run time has been reached (never early) -/
theorem due_guard (c : ReadSchedulesCmd) (r : ScheduleRow) : scheduleSelectAll_where c r = true ↔ r.nextRunTime ≤ c.nextRunTime := by
  simp [scheduleSelectAll_where]

/-- creation stores the first occurrence after the creation time; a duplicate id inserts nothing -/
theorem create_schedule_row (c : CreateScheduleCmd) (n : Nat) :
    (scheduleInsert_row c n).nextRunTime = c.nextRunTime ∧ (scheduleInsert_row c n).lastRunTime = none ∧ (scheduleInsert_row c n).cron = c.cron ∧
    (scheduleInsert_row c n).promiseId = c.promiseId ∧ (scheduleInsert_row c n).promiseTimeout = c.promiseTimeout ∧
    (scheduleInsert_row c n).promiseTags = c.promiseTags ∧ (scheduleInsert_row c n).promiseParamData = c.promiseParam.data := ⟨rfl, rfl, rfl, rfl, rfl, rfl, rfl⟩

/-- after a delete there is no row with that id left, so no later cycle can read it as due -/
theorem delete_removes (db db' : Db) (id : String) (r : Res) (h : db.exec (defs d) (.deleteSchedule ⟨id⟩) = .ok (db', r)) :
    ∀ s ∈ db'.schedules, s.id ≠ id := by
  simp only [Db.exec] at h
  injection h with h; injection h with hdb _
  intro s hs
  rw [← hdb] at hs
  simp only [List.mem_filter, defs, scheduleDelete_where] at hs
  simpa using hs.2

/-! ### the coroutines -/

/-- `CreateSchedule` computes the next run time from the creation tick: `next(createdOn)` -/
theorem create_uses_next_after_creation (env : Env) (req : CreateScheduleReq) (t0 t nx : Time) (hn : env.cronNext req.cron t = some nx) :
    ∃ k, (createSchedule env req t0).next t [.store [.schedules []]] =
      .yield [.store [.createSchedule { id := req.id, description := req.description, cron := req.cron, tags := req.tags, promiseId := req.promiseId, promiseTimeout := req.promiseTimeout, promiseParam := req.promiseParam, promiseTags := req.promiseTags, nextRunTime := nx, idempotencyKey := req.idempotencyKey, createdOn := t }]] k := by
  unfold createSchedule
  simp only [Co.next, readScheduleRow, hn]
  exact ⟨_, rfl⟩

/-- re-creating an existing schedule id writes nothing: OK iff the idempotency key matches, else already-exists -/
theorem recreate_is_idempotent (env : Env) (req : CreateScheduleReq) (t0 t : Time) (r : ScheduleRow) :
    (createSchedule env req t0).next t [.store [.schedules [r]]] =
      .done (some (.schedule (if keyMatch r.idempotencyKey req.idempotencyKey then S_OK else S_SCHEDULE_ALREADY_EXISTS) (some r.toSchedule))) := by
  unfold createSchedule
  simp only [Co.next, readScheduleRow, ScheduleRow.toSchedule]
  rfl

/-- the promise a firing creates: id from the template for that occurrence, timeout = occurrence + configured
    promise timeout, the configured parameter, tags plus the two marker tags; and the schedule is advanced to
    `next(occurrence)` guarded by `next_run_time = occurrence` — both in ONE transaction (see `firing_tx`) -/
def firingItem (env : Env) (t : Time) (r : ScheduleRow) : Option (CreatePromiseCmd × Cmd) :=
  let s := r.toSchedule
  match env.cronNext s.cron s.nextRunTime, env.genId s.promiseId s.id s.nextRunTime with
  | some next, some id =>
    some ({ id := id, param := s.promiseParam, timeout := s.promiseTimeout + s.nextRunTime, idempotencyKey := none, tags := (s.promiseTags.set "resonate:schedule" s.id).set "resonate:invocation" "true", createdOn := t },
          .updateSchedule { id := s.id, lastRunTime := some s.nextRunTime, nextRunTime := next })
  | _, _ => none

theorem firing_fields (env : Env) (t : Time) (r : ScheduleRow) (pc : CreatePromiseCmd) (u : Cmd) (h : firingItem env t r = some (pc, u)) :
    env.genId r.promiseId r.id r.nextRunTime = some pc.id ∧ pc.timeout = r.promiseTimeout + r.nextRunTime ∧
    pc.param = { headers := r.promiseParamHeaders, data := r.promiseParamData } ∧
    pc.tags = (r.promiseTags.set "resonate:schedule" r.id).set "resonate:invocation" "true" ∧
    ∃ nx, env.cronNext r.cron r.nextRunTime = some nx ∧ u = .updateSchedule { id := r.id, lastRunTime := some r.nextRunTime, nextRunTime := nx } := by
  unfold firingItem at h
  simp only [ScheduleRow.toSchedule] at h
  split at h
  · rename_i nx id h1 h2
    injection h with h; injection h with hp hu
    subst hp; subst hu
    exact ⟨h2, rfl, rfl, rfl, nx, h1, rfl⟩
  · cases h

/-- the transaction of one firing: `[create the promise (with its task when routed), UpdateSchedule]` — the
    promise and the schedule's advance commit or fail together -/
theorem firing_tx (pc : CreatePromiseCmd) (u : Cmd) (recv : String) :
    ([Cmd.createPromise pc, u].length = 2) ∧
    ([Cmd.createPromiseAndTask { promiseCommand := pc, taskCommand := { id := invokeId pc.id, recv := recv, mesg := { type := "invoke", root := pc.id, leaf := pc.id }, timeout := pc.timeout, processId := none, state := T_INIT, ttl := 0, expiresAt := 0, createdOn := pc.createdOn } }, u].length = 2) := ⟨rfl, rfl⟩

/-! ### the executable cron model satisfies the abstract hypothesis on its grid -/

theorem grid_1s : IsNext (fun o => o % 1000 = 0) (fun t => (t / 1000 + 1) * 1000) := by
  intro t; dsimp only; exact ⟨by omega, by omega, fun o ho hlt => by omega⟩
theorem grid_2s : IsNext (fun o => o % 2000 = 0) (fun t => (t / 2000 + 1) * 2000) := by
  intro t; dsimp only; exact ⟨by omega, by omega, fun o ho hlt => by omega⟩
theorem grid_5s : IsNext (fun o => o % 5000 = 0) (fun t => (t / 5000 + 1) * 5000) := by
  intro t; dsimp only; exact ⟨by omega, by omega, fun o ho hlt => by omega⟩
theorem grid_1m : IsNext (fun o => o % 60000 = 0) (fun t => (t / 60000 + 1) * 60000) := by
  intro t; dsimp only; exact ⟨by omega, by omega, fun o ho hlt => by omega⟩

/-- the executable model used by the driver is one of these grids -/
theorem cronNextModel_grid (cron : String) (p : Int) (t : Int) (h : cronGrid cron = some p) : cronNextModel cron t = some ((t / p + 1) * p) := by
  simp [cronNextModel, h]

/-! ### non-vacuity -/
example : cronNextModel "* * * * * *" 1500 = some 2000 := by decide
example : nthAfter (fun t => (t / 1000 + 1) * 1000) 1500 2 = 4000 := by decide

end Resonate.C10
