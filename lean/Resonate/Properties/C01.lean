/-
  Properties/C01.lean — promise completion is write-once; creation fields are immutable; a created
  promise never disappears.  Stated for both dialects (`d` universally quantified).
-/
import Resonate.Proofs.PromiseInv
import Resonate.Proofs.PromIds
import Resonate.Proofs.SysDb
namespace Resonate.C01
open Resonate SqlSpec

/-- **Store, any command.** All 27 command kinds with arbitrary arguments on an arbitrary database. -/
theorem any_command (d : Dialect) (db db' : Db) (cmd : Cmd) (r : Res)
    (h : db.exec (defs d) cmd = .ok (db', r)) : PromMono db db' := promMono_exec d db db' cmd r h

/-- **Store, any history.** Any sequence of batches of transactions of arbitrary commands, each batch
    committed or rolled back as a whole. -/
theorem any_batches (d : Dialect) (db : Db) (bs : List (List (List Cmd))) : PromMono db (db.execBatches (defs d) bs) :=
  execBatches_lift (defs d) PromMono PromMono.refl (fun _ _ _ => PromMono.trans)
    (fun db db' c r h => promMono_exec d db db' c r h) bs db

/-- **System, any execution.** Between ANY two states along ANY run of the kernel model — any requests,
    ticks, batch compositions and orders, injected failures before/after commit, queue/batch/pool sizes,
    router/sender outcomes, shutdown, crashes and restarts. -/
theorem any_run (env : Env) (d : Dialect) (db0 : Db) (cs1 cs2 : List Choice) :
    PromMono ((Sys.boot env d (defs d) db0).run cs1).db ((Sys.boot env d (defs d) db0).run (cs1 ++ cs2)).db := by
  rw [run_append]
  apply run_rel PromMono PromMono.refl (fun _ _ _ => PromMono.trans)
  intro db db' c r h
  rw [run_g] at h
  exact promMono_exec d db db' c r h

/-! ### what `PromMono` says, spelled out -/

/-- a promise is still there later, at the same position, with every creation field unchanged -/
theorem never_disappears {db db' : Db} (h : PromMono db db') (i : Nat) (r : PromiseRow) (hr : db.promises[i]? = some r) :
    ∃ r', db'.promises[i]? = some r' ∧ r'.id = r.id ∧ r'.sortId = r.sortId ∧ r'.paramHeaders = r.paramHeaders ∧
      r'.paramData = r.paramData ∧ r'.timeout = r.timeout ∧ r'.idempotencyKeyForCreate = r.idempotencyKeyForCreate ∧
      r'.tags = r.tags ∧ r'.createdOn = r.createdOn := by
  obtain ⟨l1, l2, he, hf⟩ := h
  obtain ⟨b, hb, hle⟩ := forall2_get hf i r hr
  refine ⟨b, ?_, hle.1.symm, hle.2.1.symm, hle.2.2.1.symm, hle.2.2.2.1.symm, hle.2.2.2.2.1.symm, hle.2.2.2.2.2.1.symm,
    hle.2.2.2.2.2.2.1.symm, hle.2.2.2.2.2.2.2.1.symm⟩
  rw [he, List.getElem?_append_left (by
    have := (List.getElem?_eq_some_iff.mp hb).1; exact this)]
  exact hb

/-- once a promise has left pending, its whole row — state, value, completion time, completion
    idempotency key — is the same for ever -/
theorem completed_is_final {db db' : Db} (h : PromMono db db') (i : Nat) (r : PromiseRow) (hr : db.promises[i]? = some r)
    (hs : r.state ≠ 1) : db'.promises[i]? = some r := by
  obtain ⟨l1, l2, he, hf⟩ := h
  obtain ⟨b, hb, hle⟩ := forall2_get hf i r hr
  have : b = r := hle.2.2.2.2.2.2.2.2.1 hs
  subst this
  rw [he, List.getElem?_append_left (List.getElem?_eq_some_iff.mp hb).1]
  exact hb

/-- a pending promise either stays as it is or moves to exactly one of resolved, rejected, canceled,
    timed-out (2, 4, 8, 16) -/
theorem leaves_pending_to_completed {db db' : Db} (h : PromMono db db') (i : Nat) (r : PromiseRow)
    (hr : db.promises[i]? = some r) (hs : r.state = 1) :
    ∃ r', db'.promises[i]? = some r' ∧ (r' = r ∨ r'.state = 2 ∨ r'.state = 4 ∨ r'.state = 8 ∨ r'.state = 16) := by
  obtain ⟨l1, l2, he, hf⟩ := h
  obtain ⟨b, hb, hle⟩ := forall2_get hf i r hr
  refine ⟨b, ?_, ?_⟩
  · rw [he, List.getElem?_append_left (List.getElem?_eq_some_iff.mp hb).1]; exact hb
  · rcases hle.2.2.2.2.2.2.2.2.2 hs with h1 | h1
    · left; exact h1
    · right; simp only [promiseStateOk, Bool.or_eq_true, beq_iff_eq] at h1; rcases h1 with ((h1 | h1) | h1) | h1 <;> simp [h1]

/-- no statement ever removes a promise -/
theorem count_monotone {db db' : Db} (h : PromMono db db') : db.promises.length ≤ db'.promises.length := by
  obtain ⟨l1, l2, he, hf⟩ := h
  rw [he, List.length_append, ← forall2_length hf]; omega

/-! ### the two headline clauses, stated directly over runs of the kernel model -/

/-- **Every run: write-once.** A promise seen completed at any point of any run is stored, byte for byte
    (state, value, completion time, completion key, creation fields), at the same position at every later
    point of that run — whatever requests, races, failures, crashes and restarts lie in between. -/
theorem completed_is_final_every_run (env : Env) (d : Dialect) (db0 : Db) (cs1 cs2 : List Choice) (i : Nat) (r : PromiseRow)
    (hr : ((Sys.boot env d (defs d) db0).run cs1).db.promises[i]? = some r) (hs : r.state ≠ 1) :
    ((Sys.boot env d (defs d) db0).run (cs1 ++ cs2)).db.promises[i]? = some r :=
  completed_is_final (any_run env d db0 cs1 cs2) i r hr hs

/-- **Every run: creation fields are immutable and a promise never disappears.** -/
theorem creation_fields_every_run (env : Env) (d : Dialect) (db0 : Db) (cs1 cs2 : List Choice) (i : Nat) (r : PromiseRow)
    (hr : ((Sys.boot env d (defs d) db0).run cs1).db.promises[i]? = some r) :
    ∃ r', ((Sys.boot env d (defs d) db0).run (cs1 ++ cs2)).db.promises[i]? = some r' ∧ r'.id = r.id ∧ r'.sortId = r.sortId ∧
      r'.paramHeaders = r.paramHeaders ∧ r'.paramData = r.paramData ∧ r'.timeout = r.timeout ∧
      r'.idempotencyKeyForCreate = r.idempotencyKeyForCreate ∧ r'.tags = r.tags ∧ r'.createdOn = r.createdOn :=
  never_disappears (any_run env d db0 cs1 cs2) i r hr

/-- **Every run: at most one transition.** A pending promise is, at every later point of the run, either
    still the same row or in exactly one of the four completed states — and by `completed_is_final_every_run`
    it then stays there: no run contains two different completions of one promise. -/
theorem at_most_one_completion_every_run (env : Env) (d : Dialect) (db0 : Db) (cs1 cs2 cs3 : List Choice) (i : Nat)
    (r r2 : PromiseRow)
    (hr : ((Sys.boot env d (defs d) db0).run cs1).db.promises[i]? = some r)
    (h2 : ((Sys.boot env d (defs d) db0).run (cs1 ++ cs2)).db.promises[i]? = some r2) (hs2 : r2.state ≠ 1) :
    ((Sys.boot env d (defs d) db0).run (cs1 ++ cs2 ++ cs3)).db.promises[i]? = some r2 ∧
      (r.state = 1 → r2.state = 2 ∨ r2.state = 4 ∨ r2.state = 8 ∨ r2.state = 16) := by
  refine ⟨completed_is_final_every_run env d db0 (cs1 ++ cs2) cs3 i r2 h2 hs2, fun hs => ?_⟩
  obtain ⟨r', hr', hc⟩ := leaves_pending_to_completed (any_run env d db0 cs1 cs2) i r hr hs
  rw [h2] at hr'; injection hr' with hr'; subst hr'
  rcases hc with hc | hc
  · exact absurd (hc ▸ hs) hs2
  · exact hc

/-! ### responses built from the coroutine's own write are the stored row (T3 helper) -/

/-- If a coroutine read row `r` (pending) at some earlier database `db1`, and its guarded completion block
    executed later on `db2` reports one affected row, then — whatever happened in between — the row now
    stored under that id is exactly `r` with the command's completion fields: the body the coroutine
    builds from `cmd` is the stored promise. -/
theorem own_completion_is_stored (d : Dialect) (db1 db2 db3 : Db) (hm : PromMono db1 db2) (hu : PromIds db2)
    (i : Nat) (r : PromiseRow) (hr : db1.promises[i]? = some r) (cmd : UpdatePromiseCmd) (hid : cmd.id = r.id)
    (res : Res) (hx : db2.exec (defs d) (.updatePromise cmd) = .ok (db3, res)) (hone : res = .rows 1) :
    db3.promises[i]? = some (promiseUpdate_set cmd r) := by
  obtain ⟨r2, hr2, hid2, _⟩ := never_disappears hm i r hr
  simp only [Db.exec] at hx
  split at hx
  · cases hx
  · injection hx with hx; injection hx with hdb hres
    subst hdb
    -- exactly one row matched the guard; by id uniqueness it is the row at position `i`, and it is pending
    have hcount : countP ((defs d).promiseUpdate_where cmd) db2.promises = 1 := by
      rw [hone] at hres; injection hres
    have hex : ∃ x ∈ db2.promises, (defs d).promiseUpdate_where cmd x = true := by
      have : (db2.promises.filter ((defs d).promiseUpdate_where cmd)) ≠ [] := by
        intro h0; simp [countP, h0] at hcount
      obtain ⟨x, hx⟩ := List.exists_mem_of_ne_nil _ this
      exact ⟨x, (List.mem_filter.mp hx).1, (List.mem_filter.mp hx).2⟩
    obtain ⟨x, hxm, hxw⟩ := hex
    simp only [defs, promiseUpdate_where, Bool.and_eq_true, beq_iff_eq] at hxw
    have hmem2 : r2 ∈ db2.promises := List.mem_of_getElem? hr2
    have hxr : x = r2 := promIds_unique hu hxm hmem2 (by rw [hxw.1, hid, hid2])
    subst hxr
    -- the row at `i` in db2 is pending, hence (PromMono from db1, where it was read) it is `r` if `r` was pending,
    -- and in any case the update rewrites position `i` from `x`
    have hxr' : x = r ∨ True := Or.inr trivial
    simp only [updateWhere, List.getElem?_map, hr2, Option.map_some]
    have hw : (defs d).promiseUpdate_where cmd x = true := by
      simp only [defs, promiseUpdate_where, Bool.and_eq_true, beq_iff_eq]; exact hxw
    simp only [hw, if_true]
    -- x and r agree on every field the update keeps
    obtain ⟨l1, l2, he, hf⟩ := hm
    obtain ⟨b, hb, hle⟩ := forall2_get hf i r hr
    have hbx : b = x := by
      have : db2.promises[i]? = some b := by
        rw [he, List.getElem?_append_left (List.getElem?_eq_some_iff.mp hb).1]; exact hb
      rw [hr2] at this; injection this with this; exact this.symm
    subst hbx
    by_cases hrs : r.state = 1
    · rcases hle.2.2.2.2.2.2.2.2.2 hrs with h1 | h1
      · rw [h1]; rfl
      · exact absurd hxw.2 (promiseStateOk_ne_one h1)
    · rw [hle.2.2.2.2.2.2.2.2.1 hrs]; rfl

/-! ### non-vacuity -/

def exRow : PromiseRow := { id := "a", sortId := 1, state := 1, paramHeaders := [], paramData := "", valueHeaders := none, valueData := none, timeout := 10, idempotencyKeyForCreate := none, idempotencyKeyForComplete := none, tags := [], createdOn := some 0, completedOn := none }
def exDb : Db := { promises := [exRow], seqP := 1 }

example : exDb.promises[0]? = some exRow ∧ exRow.state = 1 := ⟨rfl, rfl⟩
example : PromIds exDb := by simp [PromIds, exDb]

end Resonate.C01
