/-
  Model/Co.lean — coroutines as finite interaction trees (DESIGN §3.3).
  One *attempt* of a coroutine is a finite tree: `yield` hands N submissions to the AIO layer and
  is resumed (at the tick `t` the kernel resumes it, which is what `c.Time()` returns from then on)
  when all N have completed; `retry` is the Go code's `return X(c, r)`; `panic` marks every place
  where the Go code would panic (util.Assert, nil dereference, template.Must).
-/
import Resonate.Model.Api
namespace Resonate

structure SenderReq where
  task : Task
  promise : Option Promise
  claimHref : String
  completeHref : String
  heartbeatHref : String
deriving DecidableEq, Repr, Inhabited

inductive Subm
  | store (tx : List Cmd)
  | router (p : Promise)
  | sender (s : SenderReq)
deriving DecidableEq, Repr, Inhabited

/-- completion of one submission; `err` = the submission failed (store error for the whole batch,
    injected failure before/after processing, subsystem queue full, …) -/
inductive Cpl
  | store (rs : List Res)
  | router (matched : Bool) (recv : String)
  | sender (success : Bool)
  | err
deriving DecidableEq, Repr, Inhabited

inductive Co
  | done (o : Option Resp)
  | yield (subs : List Subm) (k : Time → List Cpl → Co)
  | retry
  | panic (site : String)

/-- what the coroutines take from the environment besides the store -/
structure Env where
  cfg : Config
  /-- `util.Next(t, cron)`; `none` = parse error -/
  cronNext : String → Int → Option Int
  /-- `generatePromiseId(template, id, timestamp)`; `none` = template execution error -/
  genId : String → String → Int → Option String

end Resonate
