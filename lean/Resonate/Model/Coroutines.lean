/-
  Model/Coroutines.lean — the 17 request coroutines and the 5 background coroutines of
  internal/app/coroutines/*.go as interaction trees (one function per Go coroutine, same branch
  structure, same order of commands, same time expressions: `t` is always the tick at which the
  coroutine was last resumed, i.e. what `c.Time()` returns at that point of the Go code).
  Spawned children (`completePromise`, `createPromise`) are inlined as yields of the parent.
-/
import Resonate.Model.Co
namespace Resonate
namespace Coro

def invokeId (promiseId : String) : String := "__invoke:" ++ promiseId
def callbackId (root leaf : String) : String := "__resume:" ++ root ++ ":" ++ leaf
def subscriptionId (promiseId id : String) : String := "__notify:" ++ promiseId ++ ":" ++ id

def errResp (code : Nat) : Co := .done (some (.error code))

/-- the four-command completion block of `completePromise` -/
def completeTx (cmd : UpdatePromiseCmd) (t : Time) : List Cmd :=
  [.updatePromise cmd,
   .completeTasks { rootPromiseId := cmd.id, completedOn := t },
   .createTasks { promiseId := cmd.id, createdOn := t },
   .deleteCallbacks { promiseId := cmd.id }]

/-- the time-out completion command built by every lazy path and by the sweep -/
def timeoutCmd (id : String) (p : Promise) : UpdatePromiseCmd :=
  { id := id, state := timedoutState p.tags, value := {}, idempotencyKey := none, completedOn := p.timeout }

inductive CompleteOut
  | ok (applied : Bool)
  | err
  | panic (site : String)

/-- what the `completePromise` child makes of its store completion -/
def completeOut : Cpl → CompleteOut
  | .store [.rows n0, .rows _, .rows n2, .rows n3] =>
      if n0 > 1 then .panic "completePromise: result must return 0 or 1 rows"
      else if n2 != n3 then .panic "completePromise: created rows must equal deleted rows"
      else .ok (n0 == 1)
  | .err => .err
  | _ => .panic "completePromise: malformed store completion"

def withCompleted (p : Promise) (cmd : UpdatePromiseCmd) : Promise :=
  { p with state := cmd.state, value := cmd.value, idempotencyKeyForComplete := cmd.idempotencyKey,
           completedOn := some cmd.completedOn }

/-- read one promise row out of a single-command read completion -/
inductive ReadOne (α : Type)
  | none
  | one (r : α)
  | err
  | bad

def readPromiseRow : List Cpl → ReadOne PromiseRow
  | [.store [.promises []]] => .none
  | [.store [.promises [r]]] => .one r
  | [.err] => .err
  | _ => .bad

def readTaskRow : List Cpl → ReadOne TaskRow
  | [.store [.tasks []]] => .none
  | [.store [.tasks [r]]] => .one r
  | [.err] => .err
  | _ => .bad

def readScheduleRow : List Cpl → ReadOne ScheduleRow
  | [.store [.schedules []]] => .none
  | [.store [.schedules [r]]] => .one r
  | [.err] => .err
  | _ => .bad

/-! ### promises -/

def readPromise (id : String) (_t0 : Time) : Co :=
  .yield [.store [.readPromise { id := id }]] fun t cpls =>
    match readPromiseRow cpls with
    | .err => errResp S_AIO_STORE
    | .bad => .panic "readPromise: result must return 0 or 1 rows"
    | .none => .done (some (.promise S_PROMISE_NOT_FOUND none))
    | .one r =>
      let p := r.toPromise
      if p.state == P_PENDING && p.timeout ≤ t then
        let cmd := timeoutCmd id p
        .yield [.store (completeTx cmd t)] fun _ cpls2 =>
          match cpls2 with
          | [c] =>
            match completeOut c with
            | .err => errResp S_AIO_STORE
            | .panic s => .panic s
            | .ok false => .retry
            | .ok true => .done (some (.promise S_OK (some (withCompleted p cmd))))
          | _ => .panic "readPromise: malformed completion"
      else .done (some (.promise S_OK (some p)))

def promiseOfCreate (c : CreatePromiseCmd) : Promise :=
  { id := c.id, state := P_PENDING, param := c.param, value := {}, timeout := c.timeout, idempotencyKeyForCreate := c.idempotencyKey, idempotencyKeyForComplete := none, tags := c.tags, createdOn := some c.createdOn, completedOn := none }

inductive ChildOut
  | ok (rs : List Res) (task : Option CreateTaskCmd)
  | error (code : Nat)

def routeOf : Cpl → Option String
  | .router true recv => some recv
  | _ => none

def routeFailed : Cpl → Bool
  | .router _ _ => false
  | _ => true

/-- the task created with the promise: the request's task command with the router's recv, or the
    router-made init task -/
def childTask (pc : CreatePromiseCmd) (taskCmd : Option CreateTaskCmd) : Option String → Option CreateTaskCmd
  | none => none
  | some recv => some (match taskCmd with
    | some tc => { tc with recv := recv }
    | none => { id := invokeId pc.id, recv := recv, mesg := { type := "invoke", root := pc.id, leaf := pc.id }, timeout := pc.timeout, processId := none, state := T_INIT, ttl := 0, expiresAt := 0, createdOn := pc.createdOn })

def childCmd (pc : CreatePromiseCmd) : Option CreateTaskCmd → Cmd
  | some tc => .createPromiseAndTask { promiseCommand := pc, taskCommand := tc }
  | none => .createPromise pc

def childStore (pc : CreatePromiseCmd) (ft : Option CreateTaskCmd) (extra : List Cmd) (k : ChildOut → Co) : Co :=
  .yield [.store (childCmd pc ft :: extra)] fun _ cpls2 =>
    match cpls2 with
    | [.err] => k (.error S_AIO_STORE)
    | [.store rs] =>
      if rs.length != extra.length + 1 then .panic "createPromise: completion must have same number of results as commands"
      else match rs.head? with
        | some (.rows2 p t) =>
          if p > 1 then .panic "createPromise: creating promise result must return 0 or 1 rows"
          else if t != p then .panic "createPromise: if no promise was created a task must not have been created"
          else k (.ok rs ft)
        | some (.rows n) =>
          if n > 1 then .panic "createPromise: CreatePromise result must return 0 or 1 rows" else k (.ok rs ft)
        | _ => .panic "createPromise: first result must be CreatePromise or CreatePromiseAndTask"
    | _ => .panic "createPromise: malformed store completion"

/-- the `createPromise` child: ask the router, then write promise (+ task) (+ additional commands) in
    one transaction -/
def createPromiseChild (promiseCmd : CreatePromiseCmd) (taskCmd : Option CreateTaskCmd) (extra : List Cmd)
    (k : ChildOut → Co) : Co :=
  .yield [.router (promiseOfCreate promiseCmd)] fun _ cpls =>
    match cpls with
    | [rc] =>
      if routeFailed rc then k (.error S_AIO_MATCH)
      else if taskCmd.isSome && (routeOf rc).isNone then k (.error S_PROMISE_RECV_NOT_FOUND)
      else childStore promiseCmd (childTask promiseCmd taskCmd (routeOf rc)) extra k
    | _ => .panic "createPromise: malformed router completion"

/-- `createPromiseAndTask(c, r, createPromiseReq, taskCmd)`; `withTask` = the request kind is
    CreatePromiseAndTask (then `taskCmd` was built once, at the first entry, from that entry's tick) -/
def createPromiseInner (req : CreatePromiseReq) (taskCmd : Option CreateTaskCmd) (withTask : Bool) (_t0 : Time) : Co :=
  let respond (status : Nat) (p : Option Promise) (t : Option Task) : Co :=
    if withTask then .done (some (.promiseTask status p t)) else .done (some (.promise status p))
  .yield [.store [.readPromise { id := req.id }]] fun t cpls =>
    match readPromiseRow cpls with
    | .err => errResp S_AIO_STORE
    | .bad => .panic "createPromise: result must return 0 or 1 rows"
    | .none =>
      let promiseCmd : CreatePromiseCmd :=
        { id := req.id, param := req.param, timeout := req.timeout, idempotencyKey := req.idempotencyKey, tags := req.tags, createdOn := t }
      createPromiseChild promiseCmd taskCmd [] fun out =>
        match out with
        | .error code => errResp code
        | .ok rs finalTask =>
          let affected : Nat := match rs.head? with
            | some (.rows n) => n
            | some (.rows2 p _) => p
            | _ => 0
          if affected == 0 then .retry
          else
            let p := promiseOfCreate promiseCmd
            if withTask then
              match finalTask, rs.head? with
              | some tc, some (.rows2 _ _) =>
                respond S_CREATED (some p) (some
                  { id := tc.id, counter := 1, timeout := tc.timeout, processId := tc.processId, state := tc.state, rootPromiseId := p.id, recv := tc.recv, mesg := tc.mesg, attempt := 0, ttl := tc.ttl, expiresAt := tc.expiresAt, createdOn := some tc.createdOn, completedOn := none })
              | _, _ => .panic "createPromise: completion must be createPromiseAndTask"
            else respond S_CREATED (some p) none
    | .one r =>
      let p := r.toPromise
      if p.state == P_PENDING && p.timeout ≤ t then
        let cmd := timeoutCmd req.id p
        .yield [.store (completeTx cmd t)] fun _ cpls2 =>
          match cpls2 with
          | [c] =>
            match completeOut c with
            | .err => errResp S_AIO_STORE
            | .panic s => .panic s
            | .ok false => .retry
            | .ok true =>
              let status := if !req.strict && keyMatch p.idempotencyKeyForCreate req.idempotencyKey then S_OK else S_PROMISE_ALREADY_EXISTS
              respond status (some (withCompleted p cmd)) none
          | _ => .panic "createPromise: malformed completion"
      else if !(req.strict && p.state != P_PENDING) && keyMatch p.idempotencyKeyForCreate req.idempotencyKey then
        respond S_OK (some p) none
      else respond S_PROMISE_ALREADY_EXISTS (some p) none

def createPromise (req : CreatePromiseReq) (t0 : Time) : Co := createPromiseInner req none false t0

/-- the task command of `CreatePromiseAndTask`, built once from the first entry's tick -/
def taskCmdOf (tr : CreateTaskReq) (t0 : Time) : CreateTaskCmd :=
  { id := invokeId tr.promiseId, recv := "", mesg := { type := "invoke", root := tr.promiseId, leaf := tr.promiseId }, timeout := tr.timeout, processId := some tr.processId, state := T_CLAIMED, ttl := tr.ttl, expiresAt := t0 + tr.ttl, createdOn := t0 }

def alreadyCompletedStatus (state : Nat) : Option Nat :=
  if state == P_RESOLVED then some S_PROMISE_ALREADY_RESOLVED
  else if state == P_REJECTED then some S_PROMISE_ALREADY_REJECTED
  else if state == P_CANCELED then some S_PROMISE_ALREADY_CANCELED
  else if state == P_TIMEDOUT then some S_PROMISE_ALREADY_TIMEDOUT
  else none

def completePromise (req : CompletePromiseReq) (_t0 : Time) : Co :=
  .yield [.store [.readPromise { id := req.id }]] fun t cpls =>
    match readPromiseRow cpls with
    | .err => errResp S_AIO_STORE
    | .bad => .panic "completePromise: result must return 0 or 1 rows"
    | .none => .done (some (.promise S_PROMISE_NOT_FOUND none))
    | .one r =>
      let p := r.toPromise
      if p.state == P_PENDING then
        let (cmd, status) : UpdatePromiseCmd × Nat :=
          if t < p.timeout then
            ({ id := req.id, state := req.state, value := req.value, idempotencyKey := req.idempotencyKey, completedOn := t }, S_CREATED)
          else
            let cmd := timeoutCmd req.id p
            (cmd, if cmd.state == P_RESOLVED then S_PROMISE_ALREADY_RESOLVED
                  else if req.strict then S_PROMISE_ALREADY_TIMEDOUT else S_OK)
        .yield [.store (completeTx cmd t)] fun _ cpls2 =>
          match cpls2 with
          | [c] =>
            match completeOut c with
            | .err => errResp S_AIO_STORE
            | .panic s => .panic s
            | .ok false => .retry
            | .ok true => .done (some (.promise status (some (withCompleted p cmd))))
          | _ => .panic "completePromise: malformed completion"
      else
        match alreadyCompletedStatus p.state with
        | none => .panic "completePromise: invalid promise state"
        | some st =>
          let strict := req.strict && p.state != req.state
          let timeout := !req.strict && p.state == P_TIMEDOUT
          let status := if (!strict && keyMatch p.idempotencyKeyForComplete req.idempotencyKey) || timeout then S_OK else st
          .done (some (.promise status (some p)))

def searchPromises (req : SearchPromisesReq) (_t0 : Time) : Co :=
  if req.id == "" then .panic "searchPromises: id must not be empty"
  else if req.limit ≤ 0 then .panic "searchPromises: limit must be greater than zero"
  else
  .yield [.store [.searchPromises { id := req.id, states := req.states, tags := req.tags, limit := req.limit, sortId := req.sortId }]] fun t cpls =>
    match cpls with
    | [.err] => errResp S_AIO_STORE
    | [.store [.promises rows]] =>
      let ps := rows.map PromiseRow.toPromise
      let overdue := ps.filter fun p => p.state == P_PENDING && p.timeout ≤ t
      if overdue.isEmpty then
        let cursor : Option SearchPromisesReq :=
          if (rows.length : Int) == req.limit then
            some { req with sortId := some (match rows.getLast? with | some r => (r.sortId : Int) | none => 0) }
          else none
        .done (some (.searchPromises S_OK ps cursor))
      else
        .yield (overdue.map fun p => .store (completeTx (timeoutCmd p.id p) t)) fun _ cpls2 =>
          let outs := cpls2.map completeOut
          match outs.find? (fun o => match o with | .panic _ => true | _ => false) with
          | some (.panic s) => .panic s
          | _ =>
            if outs.any (fun o => match o with | .err => true | _ => false) then errResp S_AIO_STORE
            else .retry
    | _ => .panic "searchPromises: malformed completion"

/-! ### callbacks and subscriptions -/

def registerCallback (promiseId cbId recv : String) (mesg : Mesg) (timeout : Int) : Co :=
  .yield [.store [.readPromise { id := promiseId }]] fun t cpls =>
    match readPromiseRow cpls with
    | .err => errResp S_AIO_STORE
    | .bad => .panic "createCallback: result must return 0 or 1 rows"
    | .none => .done (some (.callback S_PROMISE_NOT_FOUND none none))
    | .one r =>
      let p := r.toPromise
      if p.state == P_PENDING then
        let createdOn := t
        .yield [.store [.createCallback { id := cbId, promiseId := promiseId, recv := recv, mesg := mesg, timeout := timeout, createdOn := createdOn }]] fun _ cpls2 =>
          match cpls2 with
          | [.err] => errResp S_AIO_STORE
          | [.store [.rows n]] =>
            if n > 1 then .panic "createCallback: result must return 0 or 1 rows"
            else if n == 1 then
              .done (some (.callback S_CREATED (some p)
                (some { id := cbId, promiseId := promiseId, recv := recv, mesg := mesg, timeout := timeout, createdOn := createdOn })))
            else
              -- no row inserted: the registration exists already, or the promise completed meanwhile — read it again
              .yield [.store [.readPromise { id := promiseId }]] fun _ cpls3 =>
                match readPromiseRow cpls3 with
                | .err => errResp S_AIO_STORE
                | .one r2 => .done (some (.callback S_OK (some r2.toPromise) none))
                | _ => .panic "createCallback: promise must still exist"
          | _ => .panic "createCallback: malformed completion"
      else .done (some (.callback S_OK (some p) none))

def createCallback (req : CreateCallbackReq) (_t0 : Time) : Co :=
  if req.promiseId == req.rootPromiseId then .done (some (.callback S_CALLBACK_INVALID_PROMISE none none))
  else registerCallback req.promiseId (callbackId req.rootPromiseId req.promiseId) req.recv
         { type := "resume", root := req.rootPromiseId, leaf := req.promiseId } req.timeout

def createSubscription (req : CreateSubscriptionReq) (_t0 : Time) : Co :=
  registerCallback req.promiseId (subscriptionId req.promiseId req.id) req.recv
    { type := "notify", root := req.promiseId, leaf := "" } req.timeout

/-! ### schedules -/

def readSchedule (id : String) (_t0 : Time) : Co :=
  .yield [.store [.readSchedule { id := id }]] fun _ cpls =>
    match readScheduleRow cpls with
    | .err => errResp S_AIO_STORE
    | .bad => .panic "readSchedule: result must return 0 or 1 rows"
    | .none => .done (some (.schedule S_SCHEDULE_NOT_FOUND none))
    | .one r => .done (some (.schedule S_OK (some r.toSchedule)))

def createSchedule (env : Env) (req : CreateScheduleReq) (_t0 : Time) : Co :=
  .yield [.store [.readSchedule { id := req.id }]] fun t cpls =>
    match readScheduleRow cpls with
    | .err => errResp S_AIO_STORE
    | .bad => .panic "createSchedule: result must return 0 or 1 rows"
    | .one r =>
      let s := r.toSchedule
      let status := if keyMatch s.idempotencyKey req.idempotencyKey then S_OK else S_SCHEDULE_ALREADY_EXISTS
      .done (some (.schedule status (some s)))
    | .none =>
      let createdOn := t
      match env.cronNext req.cron createdOn with
      | none => errResp S_AIO_STORE
      | some next =>
        .yield [.store [.createSchedule { id := req.id, description := req.description, cron := req.cron, tags := req.tags, promiseId := req.promiseId, promiseTimeout := req.promiseTimeout, promiseParam := req.promiseParam, promiseTags := req.promiseTags, nextRunTime := next, idempotencyKey := req.idempotencyKey, createdOn := createdOn }]] fun _ cpls2 =>
          match cpls2 with
          | [.err] => errResp S_AIO_STORE
          | [.store [.rows n]] =>
            if n > 1 then .panic "createSchedule: result must return 0 or 1 rows"
            else if n == 1 then
              .done (some (.schedule S_CREATED (some
                { id := req.id, description := req.description, cron := req.cron, tags := req.tags, promiseId := req.promiseId, promiseTimeout := req.promiseTimeout, promiseParam := req.promiseParam, promiseTags := req.promiseTags, lastRunTime := none, nextRunTime := next, idempotencyKey := req.idempotencyKey, createdOn := createdOn })))
            else .retry
          | _ => .panic "createSchedule: malformed completion"

def deleteSchedule (id : String) (_t0 : Time) : Co :=
  .yield [.store [.deleteSchedule { id := id }]] fun _ cpls =>
    match cpls with
    | [.err] => errResp S_AIO_STORE
    | [.store [.rows n]] =>
      if n > 1 then .panic "deleteSchedule: result must return 0 or 1 rows"
      else .done (some (.status (if n == 1 then S_NOCONTENT else S_SCHEDULE_NOT_FOUND)))
    | _ => .panic "deleteSchedule: malformed completion"

def searchSchedules (req : SearchSchedulesReq) (_t0 : Time) : Co :=
  if req.id == "" then .panic "searchSchedules: id must not be empty"
  else if req.limit ≤ 0 then .panic "searchSchedules: limit must be greater than zero"
  else
  .yield [.store [.searchSchedules { id := req.id, tags := req.tags, limit := req.limit, sortId := req.sortId }]] fun _ cpls =>
    match cpls with
    | [.err] => errResp S_AIO_STORE
    | [.store [.schedules rows]] =>
      let cursor : Option SearchSchedulesReq :=
        if (rows.length : Int) == req.limit then
          some { req with sortId := some (match rows.getLast? with | some r => (r.sortId : Int) | none => 0) }
        else none
      .done (some (.searchSchedules S_OK (rows.map ScheduleRow.toSchedule) cursor))
    | _ => .panic "searchSchedules: malformed completion"

/-! ### locks -/

def acquireLock (req : AcquireLockReq) (t0 : Time) : Co :=
  let expiresAt := t0 + req.ttl
  .yield [.store [.acquireLock { resourceId := req.resourceId, processId := req.processId, executionId := req.executionId, ttl := req.ttl, expiresAt := expiresAt }]] fun _ cpls =>
    match cpls with
    | [.err] => errResp S_AIO_STORE
    | [.store [.rows n]] =>
      if n > 1 then .panic "acquireLock: result must return 0 or 1 rows"
      else if n == 0 then .done (some (.lock S_LOCK_ALREADY_ACQUIRED none))
      else .done (some (.lock S_CREATED (some { resourceId := req.resourceId, executionId := req.executionId, processId := req.processId, ttl := req.ttl, expiresAt := expiresAt })))
    | _ => .panic "acquireLock: malformed completion"

def releaseLock (resourceId executionId : String) (_t0 : Time) : Co :=
  .yield [.store [.releaseLock { resourceId := resourceId, executionId := executionId }]] fun _ cpls =>
    match cpls with
    | [.err] => errResp S_AIO_STORE
    | [.store [.rows n]] =>
      if n > 1 then .panic "releaseLock: result must return 0 or 1 rows"
      else .done (some (.status (if n == 0 then S_LOCK_NOT_FOUND else S_NOCONTENT)))
    | _ => .panic "releaseLock: malformed completion"

def heartbeatLocks (processId : String) (t0 : Time) : Co :=
  .yield [.store [.heartbeatLocks { processId := processId, time := t0 }]] fun _ cpls =>
    match cpls with
    | [.err] => errResp S_AIO_STORE
    | [.store [.rows n]] => .done (some (.count S_OK n))
    | _ => .panic "heartbeatLocks: malformed completion"

/-! ### tasks -/

def claimTask (env : Env) (req : ClaimTaskReq) (_t0 : Time) : Co :=
  if req.processId == "" then .panic "claimTask: process id must be set"
  else if req.ttl < 0 then .panic "claimTask: ttl must be greater than or equal to 0"
  else
  .yield [.store [.readTask { id := req.id }]] fun t cpls =>
    match readTaskRow cpls with
    | .err => errResp S_AIO_STORE
    | .bad => .panic "claimTask: result must return 0 or 1 rows"
    | .none => .done (some (.claim S_TASK_NOT_FOUND none none none "" ""))
    | .one r =>
      let tk := r.toTask
      if tk.state == T_CLAIMED then .done (some (.claim S_TASK_ALREADY_CLAIMED (some tk) none none "" ""))
      else if tk.state == T_COMPLETED || tk.state == T_TIMEDOUT then .done (some (.claim S_TASK_ALREADY_COMPLETED (some tk) none none "" ""))
      else if tk.counter != req.counter then .done (some (.claim S_TASK_INVALID_COUNTER (some tk) none none "" ""))
      else
        let expiresAt := t + req.ttl
        .yield [.store [.updateTask { id := req.id, processId := some req.processId, state := T_CLAIMED, counter := req.counter, attempt := tk.attempt, ttl := req.ttl, expiresAt := expiresAt, completedOn := none, currentStates := [T_INIT, T_ENQUEUED], currentCounter := req.counter }]] fun _ cpls2 =>
          match cpls2 with
          | [.err] => errResp S_AIO_STORE
          | [.store [.rows n]] =>
            if n > 1 then .panic "claimTask: result must return 0 or 1 rows"
            else if n == 0 then .retry
            else
              let isResume := tk.mesg.type == "resume"
              let reads : List Cmd := .readPromise { id := tk.mesg.root } :: (if isResume then [.readPromise { id := tk.mesg.leaf }] else [])
              .yield [.store reads] fun _ cpls3 =>
                match cpls3 with
                | [.err] => errResp S_AIO_STORE
                | [.store rs] =>
                  if rs.length != reads.length then .panic "claimTask: number of results must match number of commands"
                  else
                    let first (r : Option Res) : Option (Option Promise) := match r with
                      | some (.promises rows) => some (rows.head?.map PromiseRow.toPromise)
                      | _ => none
                    match first rs.head?, (if isResume then first (rs.drop 1).head? else some none) with
                    | some rp, some lp =>
                      .done (some (.claim S_CREATED
                        (some { tk with processId := some req.processId, state := T_CLAIMED, ttl := req.ttl, expiresAt := expiresAt })
                        rp lp (env.cfg.url ++ "/promises/" ++ tk.mesg.root)
                        (if isResume then env.cfg.url ++ "/promises/" ++ tk.mesg.leaf else "")))
                    | _, _ => .panic "claimTask: result must not be nil"
                | _ => .panic "claimTask: malformed completion"
          | _ => .panic "claimTask: malformed completion"

def completeTask (id : String) (counter : Int) (_t0 : Time) : Co :=
  .yield [.store [.readTask { id := id }]] fun t cpls =>
    match readTaskRow cpls with
    | .err => errResp S_AIO_STORE
    | .bad => .panic "completeTask: result must return 0 or 1 rows"
    | .none => .done (some (.task S_TASK_NOT_FOUND none))
    | .one r =>
      let tk := r.toTask
      if tk.state == T_COMPLETED || tk.state == T_TIMEDOUT then .done (some (.task S_OK (some tk)))
      else if tk.state == T_INIT || tk.state == T_ENQUEUED then .done (some (.task S_TASK_INVALID_STATE (some tk)))
      else if tk.counter != counter then .done (some (.task S_TASK_INVALID_COUNTER (some tk)))
      else
        let completedOn := t
        .yield [.store [.updateTask { id := id, processId := none, state := T_COMPLETED, counter := counter, attempt := 0, ttl := 0, expiresAt := 0, completedOn := some completedOn, currentStates := [T_CLAIMED], currentCounter := counter }]] fun _ cpls2 =>
          match cpls2 with
          | [.err] => errResp S_AIO_STORE
          | [.store [.rows n]] =>
            if n > 1 then .panic "completeTask: result must return 0 or 1 rows"
            else if n == 0 then .retry
            else .done (some (.task S_CREATED (some { tk with processId := none, state := T_COMPLETED, attempt := 0, ttl := 0, expiresAt := 0, completedOn := some completedOn })))
          | _ => .panic "completeTask: malformed completion"

def heartbeatTasks (processId : String) (t0 : Time) : Co :=
  .yield [.store [.heartbeatTasks { processId := processId, time := t0 }]] fun _ cpls =>
    match cpls with
    | [.err] => errResp S_AIO_STORE
    | [.store [.rows n]] => .done (some (.count S_OK n))
    | _ => .panic "heartbeatTasks: malformed completion"

/-! ### background coroutines -/

def timeoutPromises (env : Env) (t0 : Time) : Co :=
  .yield [.store [.readPromises { time := t0, limit := env.cfg.promiseBatchSize }]] fun t cpls =>
    match cpls with
    | [.err] => .done none
    | [.store [.promises rows]] =>
      if rows.any (fun r => r.state != P_PENDING) then .panic "timeoutPromises: promise must be pending"
      else if rows.any (fun r => !(r.timeout ≤ t)) then .panic "timeoutPromises: promise timeout must have elapsed"
      else if rows.isEmpty then .done none
      else
        .yield (rows.map fun r => .store (completeTx (timeoutCmd r.id r.toPromise) t)) fun _ cpls2 =>
          match (cpls2.map completeOut).find? (fun o => match o with | .panic _ => true | _ => false) with
          | some (.panic s) => .panic s
          | _ => .done none
    | _ => .panic "timeoutPromises: malformed completion"

def timeoutLocks (t0 : Time) : Co :=
  .yield [.store [.timeoutLocks { timeout := t0 }]] fun _ cpls =>
    match cpls with
    | [.err] => .done none
    | [.store [_]] => .done none
    | _ => .panic "timeoutLocks: completion must have one result"

def timeoutTasks (env : Env) (t0 : Time) : Co :=
  .yield [.store [.readTasks { states := [T_ENQUEUED, T_CLAIMED], time := t0, limit := env.cfg.taskBatchSize }]] fun t cpls =>
    match cpls with
    | [.err] => .done none
    | [.store [.tasks rows]] =>
      if rows.any (fun r => (r.state &&& (T_INIT ||| T_ENQUEUED ||| T_CLAIMED)) == 0) then .panic "timeoutTasks: task must be in state enqueued or claimed"
      else if rows.isEmpty then .done none
      else
        let cmds : List Cmd := rows.map fun r =>
          if t < r.timeout then
            .updateTask { id := r.id, processId := none, state := T_INIT, counter := r.counter + 1, attempt := 0, ttl := 0, expiresAt := 0, completedOn := none, currentStates := [r.state], currentCounter := r.counter }
          else
            .updateTask { id := r.id, processId := none, state := T_TIMEDOUT, counter := r.counter, attempt := r.attempt, ttl := 0, expiresAt := 0, completedOn := some r.timeout, currentStates := [r.state], currentCounter := r.counter }
        if cmds.isEmpty then .done none else .yield [.store cmds] fun _ _ => .done none
    | _ => .panic "timeoutTasks: malformed completion"

/-- the update written for one dispatched task, given the hand-off outcome -/
def enqueueOutcomeCmd (expiresAt : Int) (r : TaskRow) (o : Cpl) : Cmd :=
  if r.mesg.type == "notify" then
    .updateTask { id := r.id, processId := none, state := T_COMPLETED, counter := r.counter, attempt := r.attempt, ttl := 0, expiresAt := expiresAt, completedOn := none, currentStates := [T_INIT], currentCounter := r.counter }
  else if (match o with | .sender true => true | _ => false) then
    .updateTask { id := r.id, processId := none, state := T_ENQUEUED, counter := r.counter, attempt := r.attempt, ttl := 0, expiresAt := expiresAt, completedOn := none, currentStates := [T_INIT], currentCounter := r.counter }
  else
    .updateTask { id := r.id, processId := none, state := T_INIT, counter := r.counter, attempt := r.attempt + 1, ttl := 0, expiresAt := expiresAt, completedOn := none, currentStates := [T_INIT], currentCounter := r.counter }

def enqueueFinish (deadCmds : List Cmd) (live : List TaskRow) (expiresAt : Int) (outs : List Cpl) : Co :=
  let cmds := deadCmds ++ (live.zip outs).map fun (r, o) => enqueueOutcomeCmd expiresAt r o
  if cmds.isEmpty then .done none else .yield [.store cmds] fun _ _ => .done none

/-- the hand-off request for one enqueueable task: the task row as read (marked enqueued), the promise it belongs
    to, and the three links a worker needs, built from the configured URL and the row's id and counter -/
def senderReqOf (env : Env) (expiresAt : Int) (r : TaskRow) (pr : Res) : SenderReq :=
  let tk := r.toTask
  let p : Option Promise := match pr with
    | .promises (row :: _) => some row.toPromise
    | _ => none
  { task := { tk with state := T_ENQUEUED, expiresAt := expiresAt }, promise := p, claimHref := env.cfg.url ++ "/tasks/claim/" ++ tk.id ++ "/" ++ toString tk.counter, completeHref := env.cfg.url ++ "/tasks/complete/" ++ tk.id ++ "/" ++ toString tk.counter, heartbeatHref := env.cfg.url ++ "/tasks/heartbeat/" ++ tk.id ++ "/" ++ toString tk.counter }

def enqueueTasks (env : Env) (t0 : Time) : Co :=
  .yield [.store [.readEnqueueableTasks { time := t0, limit := env.cfg.taskBatchSize }]] fun _ cpls =>
    match cpls with
    | [.err] => .done none
    | [.store [.tasks rows]] =>
      if rows.isEmpty then .done none
      else
        .yield [.store (rows.map fun r => .readPromise { id := r.rootPromiseId })] fun t cpls2 =>
          match cpls2 with
          | [.err] => .done none
          | [.store prs] =>
            if prs.length != rows.length then .panic "enqueueTasks: there must be one result per cmd"
            else
              let expiresAt := t + env.cfg.taskEnqueueDelay
              let items := rows.zip prs
              let live := items.filter fun (r, _) => t < r.timeout
              let dead := items.filter fun (r, _) => !(t < r.timeout)
              let deadCmds : List Cmd := dead.map fun (r, _) =>
                .updateTask { id := r.id, processId := none, state := T_TIMEDOUT, counter := r.counter, attempt := r.attempt, ttl := 0, expiresAt := 0, completedOn := some r.timeout, currentStates := [T_INIT], currentCounter := r.counter }
              if live.any (fun (_, pr) => match pr with | .promises _ => false | _ => true) then .panic "enqueueTasks: ReadPromise must not be nil"
              else
              let senders : List Subm := live.map fun (r, pr) => .sender (senderReqOf env expiresAt r pr)
              if senders.isEmpty then enqueueFinish deadCmds (live.map (·.1)) expiresAt []
              else .yield senders fun _ outs => enqueueFinish deadCmds (live.map (·.1)) expiresAt outs
          | _ => .panic "enqueueTasks: malformed completion"
    | _ => .panic "enqueueTasks: malformed completion"

def schedulePromises (env : Env) (t0 : Time) : Co :=
  .yield [.store [.readSchedules { nextRunTime := t0, limit := env.cfg.scheduleBatchSize }]] fun t cpls =>
    match cpls with
    | [.err] => .done none
    | [.store [.schedules rows]] =>
      if rows.any (fun r => !(r.nextRunTime ≤ t)) then .panic "schedulePromises: schedule next run time must have elapsed"
      else
        -- one (create, update) pair per schedule whose cron and id template evaluate
        let items : List (CreatePromiseCmd × Cmd) := rows.filterMap fun r =>
          let s := r.toSchedule
          match env.cronNext s.cron s.nextRunTime, env.genId s.promiseId s.id s.nextRunTime with
          | some next, some id =>
            let tags := (s.promiseTags.set "resonate:schedule" s.id).set "resonate:invocation" "true"
            some ({ id := id, param := s.promiseParam, timeout := s.promiseTimeout + s.nextRunTime, idempotencyKey := none, tags := tags, createdOn := t },
                  .updateSchedule { id := s.id, lastRunTime := some s.nextRunTime, nextRunTime := next })
          | _, _ => none
        if items.isEmpty then .done none
        else
          .yield (items.map fun (pc, _) => .router (promiseOfCreate pc)) fun _ rcs =>
            if rcs.length != items.length then .panic "schedulePromises: malformed router completions"
            else
              -- a child whose router submission failed returns an error: nothing is written for it this cycle
              let txs : List Subm := ((items.zip rcs).filter fun (_, rc) => !routeFailed rc).map fun ((pc, upd), rc) =>
                match rc with
                | .router true recv =>
                  .store [.createPromiseAndTask { promiseCommand := pc, taskCommand := { id := invokeId pc.id, recv := recv, mesg := { type := "invoke", root := pc.id, leaf := pc.id }, timeout := pc.timeout, processId := none, state := T_INIT, ttl := 0, expiresAt := 0, createdOn := pc.createdOn } }, upd]
                | _ => .store [.createPromise pc, upd]
              if txs.isEmpty then .done none else
              .yield txs fun _ scs =>
                -- the child's own assertions; the parent only logs the affected-row count
                if scs.any (fun c => match c with
                    | .store [.rows n, .rows _] => decide (n > 1)
                    | .store [.rows2 p t, .rows _] => decide (p > 1) || t != p
                    | .err => false
                    | _ => true) then .panic "schedulePromises: malformed completion"
                else .done none
    | _ => .panic "schedulePromises: malformed completion"

end Coro

/-- the coroutine registered for a request kind (`AddOnRequest`), as a restartable body:
    the closure captures what is computed once at first entry (the tick `t0`) -/
def Req.body (env : Env) (r : Req) (t0 : Time) : Time → Co :=
  match r with
  | .readPromise id => Coro.readPromise id
  | .searchPromises q => Coro.searchPromises q
  | .createPromise q => Coro.createPromise q
  | .createPromiseAndTask p tr =>
    if p.id != tr.promiseId then fun _ => .panic "createPromiseAndTask: promise ids must match"
    else if p.timeout != tr.timeout then fun _ => .panic "createPromiseAndTask: timeouts must match"
    else Coro.createPromiseInner p (some (Coro.taskCmdOf tr t0)) true
  | .completePromise q => Coro.completePromise q
  | .createCallback q => Coro.createCallback q
  | .createSubscription q => Coro.createSubscription q
  | .readSchedule id => Coro.readSchedule id
  | .searchSchedules q => Coro.searchSchedules q
  | .createSchedule q => Coro.createSchedule env q
  | .deleteSchedule id => Coro.deleteSchedule id
  | .acquireLock q => Coro.acquireLock q
  | .releaseLock res ex => Coro.releaseLock res ex
  | .heartbeatLocks pid => Coro.heartbeatLocks pid
  | .claimTask q => Coro.claimTask env q
  | .completeTask id counter => Coro.completeTask id counter
  | .heartbeatTasks pid => Coro.heartbeatTasks pid

inductive BgKind | timeoutPromises | schedulePromises | timeoutLocks | timeoutTasks | enqueueTasks
deriving DecidableEq, Repr, Inhabited

def BgKind.body (env : Env) : BgKind → Time → Co
  | .timeoutPromises => Coro.timeoutPromises env
  | .schedulePromises => Coro.schedulePromises env
  | .timeoutLocks => Coro.timeoutLocks
  | .timeoutTasks => Coro.timeoutTasks env
  | .enqueueTasks => Coro.enqueueTasks env

end Resonate
