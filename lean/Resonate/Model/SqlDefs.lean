/-
  Model/SqlDefs.lean — the interface between the generated SQL definitions and the store model.
  `Generated/Sql.lean` (emitted by translate/sql2lean.py from /repo on every run) provides one
  instance per dialect; `Model/Store.lean` defines the store semantics over an arbitrary instance.
-/
import Resonate.Model.SqlPrims
namespace Resonate

structure SqlDefs where
  promiseSelect_where : ReadPromiseCmd → PromiseRow → Bool
  promiseSelect_proj : PromiseRow → PromiseRow
  promiseSelectAll_where : ReadPromisesCmd → PromiseRow → Bool
  promiseSelectAll_proj : PromiseRow → PromiseRow
  promiseSelectAll_limit : ReadPromisesCmd → Int
  promiseSearch_where : SearchPromisesCmd → PromiseRow → Bool
  promiseSearch_proj : PromiseRow → PromiseRow
  promiseSearch_limit : SearchPromisesCmd → Int
  promiseInsert_row : CreatePromiseCmd → Nat → PromiseRow
  promiseUpdate_where : UpdatePromiseCmd → PromiseRow → Bool
  promiseUpdate_set : UpdatePromiseCmd → PromiseRow → PromiseRow
  callbackInsert_row : CreateCallbackCmd → CallbackRow
  callbackInsert_guard : CreateCallbackCmd → Db → Bool
  callbackDelete_where : DeleteCallbacksCmd → CallbackRow → Bool
  scheduleSelect_where : ReadScheduleCmd → ScheduleRow → Bool
  scheduleSelect_proj : ScheduleRow → ScheduleRow
  scheduleSelectAll_where : ReadSchedulesCmd → ScheduleRow → Bool
  scheduleSelectAll_proj : ScheduleRow → ScheduleRow
  scheduleSelectAll_limit : ReadSchedulesCmd → Int
  scheduleSearch_where : SearchSchedulesCmd → ScheduleRow → Bool
  scheduleSearch_proj : ScheduleRow → ScheduleRow
  scheduleSearch_limit : SearchSchedulesCmd → Int
  scheduleInsert_row : CreateScheduleCmd → Nat → ScheduleRow
  scheduleUpdate_where : UpdateScheduleCmd → ScheduleRow → Bool
  scheduleUpdate_set : UpdateScheduleCmd → ScheduleRow → ScheduleRow
  scheduleDelete_where : DeleteScheduleCmd → ScheduleRow → Bool
  lockRead_where : ReadLockCmd → LockRow → Bool
  lockRead_proj : LockRow → LockRow
  lockAcquire_row : AcquireLockCmd → LockRow
  lockAcquire_conflictWhere : LockRow → LockRow → Bool
  lockAcquire_conflictSet : LockRow → LockRow → LockRow
  lockRelease_where : ReleaseLockCmd → LockRow → Bool
  lockHeartbeat_where : HeartbeatLocksCmd → LockRow → Bool
  lockHeartbeat_set : HeartbeatLocksCmd → LockRow → LockRow
  lockTimeout_where : TimeoutLocksCmd → LockRow → Bool
  taskSelect_where : ReadTaskCmd → TaskRow → Bool
  taskSelect_proj : TaskRow → TaskRow
  taskSelectAll_where : ReadTasksCmd → TaskRow → Bool
  taskSelectAll_proj : TaskRow → TaskRow
  taskSelectAll_limit : ReadTasksCmd → Int
  taskSelectEnqueueable_where : ReadEnqueueableTasksCmd → Db → TaskRow → Bool
  taskSelectEnqueueable_proj : TaskRow → TaskRow
  taskSelectEnqueueable_limit : ReadEnqueueableTasksCmd → Int
  taskInsert_row : CreateTaskCmd → Nat → TaskRow
  taskInsertAll_row : CreateTasksCmd → CallbackRow → Nat → TaskRow
  taskInsertAll_where : CreateTasksCmd → CallbackRow → Bool
  taskUpdate_where : UpdateTaskCmd → TaskRow → Bool
  taskUpdate_set : UpdateTaskCmd → TaskRow → TaskRow
  taskCompleteByRootId_where : CompleteTasksCmd → TaskRow → Bool
  taskCompleteByRootId_set : CompleteTasksCmd → TaskRow → TaskRow
  taskHeartbeat_where : HeartbeatTasksCmd → TaskRow → Bool
  taskHeartbeat_set : HeartbeatTasksCmd → TaskRow → TaskRow
  /-- canonical text of the untranslated parts of each statement (kind, table, conflict target,
      ORDER BY / GROUP BY / DISTINCT ON / LIMIT shape) — pinned in Model/Store.lean -/
  shape : List (String × String)
  /-- command kind ↦ handler(prepared statements) as wired in `performCommands` -/
  wiring : List (String × String)
  /-- table ↦ UNIQUE / PRIMARY KEY columns -/
  uniques : List (String × List String)

end Resonate
