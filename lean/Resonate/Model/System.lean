/-
  Model/System.lean — the kernel around the coroutines: `system.Tick`, the API submission queue,
  the scheduler in-queue, background gating, completion delivery, store batches with injected
  failures, crash.  `Sys.step` is total and executable; the correspondence driver runs it on the
  choice list the Go harness took against the real `system.System`, and `Reachable` is defined by
  the same function, so there is one semantics only (DESIGN §3.4).
-/
import Resonate.Model.Coroutines
import Resonate.Model.Store
namespace Resonate

/-- identifies one dispatched submission: thread id + per-thread sequence number -/
structure SubId where
  tid : String
  seq : Nat
deriving DecidableEq, Repr, Inhabited

inductive Event
  | dispatch (id : SubId) (s : Subm)
  | respond (tid : String) (r : Resp)
  | bgDone (tid : String)
  | panic (tid : String) (site : String)
deriving Repr, Inhabited

structure Thread where
  tid : String
  isBg : Option BgKind
  restart : Time → Co
  co : Co
  nextSeq : Nat
  /-- completion slots of the current yield, in submission order -/
  slots : List (Nat × Option Cpl)

inductive FailMode | ok | before | after
deriving DecidableEq, Repr, Inhabited

structure BgState where
  kind : BgKind
  last : Int := 0
  /-- thread id of the running instance, if its promise is not completed yet -/
  running : Option String := none
deriving Repr, Inhabited

def bgName : BgKind → String
  | .timeoutPromises => "TimeoutPromises"
  | .schedulePromises => "SchedulePromises"
  | .timeoutLocks => "TimeoutLocks"
  | .enqueueTasks => "EnqueueTasks"
  | .timeoutTasks => "TimeoutTasks"

/-- registration order of `cmd/serve/serve.go` -/
def bgOrder : List BgKind := [.timeoutPromises, .schedulePromises, .timeoutLocks, .enqueueTasks, .timeoutTasks]

structure Sys where
  env : Env
  d : Dialect := .sqlite
  g : SqlDefs
  db : Db := {}
  threads : List Thread := []
  /-- API submission queue (`api.sq`) -/
  apiQ : List (String × Req) := []
  apiDone : Bool := false
  /-- dispatched, not yet processed submissions -/
  pending : List (SubId × Subm) := []
  /-- completions waiting for the next tick (`aio.cq`) -/
  cq : List (SubId × Cpl) := []
  bg : List BgState := bgOrder.map fun k => { kind := k }
  /-- which background kinds are registered (all five in production) -/
  bgEnabled : Bool := true
  halted : Option String := none

inductive Choice
  | submit (tid : String) (r : Req)
  | tick (t : Time)
  /-- process the listed pending store submissions as ONE batch, in this order -/
  | execStore (items : List (SubId × FailMode))
  /-- complete one pending router / sender submission with the outcome observed in the implementation
      (`none` = the submission failed) -/
  | complete (id : SubId) (c : Cpl)
  | shutdown
  | crash

/-! ### running threads -/

/-- run one thread until it blocks: returns the thread (or none when finished), its events -/
def Thread.run (th : Thread) (t : Time) : Nat → Option Thread × List Event × List (SubId × Subm) × Option String
  | 0 => (some th, [], [], some "fuel")
  | fuel + 1 =>
    match th.co with
    | .done o =>
      match th.isBg, o with
      | none, some r => (none, [.respond th.tid r], [], none)
      | none, none => (none, [.panic th.tid "request coroutine returned no response"], [], some "no response")
      | some _, _ => (none, [.bgDone th.tid], [], none)
    | .panic site => (none, [.panic th.tid site], [], some site)
    | .retry => Thread.run { th with co := th.restart t } t fuel
    | .yield subs k =>
      if subs.isEmpty then Thread.run { th with co := k t [] } t fuel
      else
        let ids := (List.range subs.length).map fun i => th.nextSeq + i
        let disp := (ids.zip subs).map fun (i, s) => (({ tid := th.tid, seq := i } : SubId), s)
        (some { th with co := .yield subs k, nextSeq := th.nextSeq + subs.length, slots := ids.map fun i => (i, none) },
         disp.map (fun (i, s) => Event.dispatch i s), disp, none)

/-- awaiting the children in order (`for _, p := range awaiting { if _, err := gocoro.Await(c, p); err != nil { return nil, err } }`):
    the first slot that is unfilled or failed is a failed one — every child before it has completed without error -/
def firstFailed (slots : List (Nat × Option Cpl)) : Bool :=
  match slots.find? (fun s => match s.2 with | some .err => true | none => true | _ => false) with
  | some (_, some .err) => true
  | _ => false

/-- a thread whose slots are all filled is resumed: its continuation gets the tick and the completions.
    A request coroutine awaits its children in order and returns on the first error (searchPromises.go is the only
    request coroutine with several children); it is resumed as soon as `firstFailed` holds, the children that have not
    completed yet counting as failed — their completions arrive later and are dropped.  The background coroutines log
    the error and keep awaiting (timeoutPromises.go, enqueueTasks.go, schedulePromises.go), so they wait for every slot.
    Which of the two a coroutine file does is pinned from the source by `Gen.awaitLoops` (Proofs/SitesPin.lean). -/
def Thread.resume? (th : Thread) (t : Time) : Option Thread :=
  if th.slots.isEmpty then none
  else if th.slots.all (fun s => s.2.isSome) then
    match th.co with
    | .yield _ k => some { th with co := k t (th.slots.filterMap (·.2)), slots := [] }
    | _ => none
  else if th.isBg.isNone && firstFailed th.slots then
    match th.co with
    | .yield _ k => some { th with co := k t (th.slots.map fun s => s.2.getD .err), slots := [] }
    | _ => none
  else none

def fillSlot (th : Thread) (seq : Nat) (c : Cpl) : Thread :=
  { th with slots := th.slots.map fun s => if s.1 == seq && s.2.isNone then (s.1, some c) else s }

/-- `DequeueSQE(n)` dequeues ⌈n/2⌉ entries at most (the loop bound shrinks as the slice grows) -/
def dequeueCount (n avail : Nat) : Nat := min avail ((n + 1) / 2)

def fuelPerThread : Nat := 64

/-- fill the completion slots of the threads the delivered completions belong to -/
def deliverAll (threads : List Thread) : List (SubId × Cpl) → List Thread
  | [] => threads
  | dc :: rest => deliverAll (threads.map fun th => if th.tid == dc.1.tid then fillSlot th dc.1.seq dc.2 else th) rest

def newThread (tid : String) (isBg : Option BgKind) (body : Time → Co) : Thread :=
  { tid := tid, isBg := isBg, restart := body, co := .retry, nextSeq := 0, slots := [] }

def bgRunningDone (live : List Thread) (b : BgState) : Bool :=
  match b.running with
  | none => true
  | some tid => !(live.any fun th => th.tid == tid)

/-- background gating: returns the updated registry, the started instances, and the number of
    scheduler in-queue slots used -/
def startBg (env : Env) (enabled apiDrained : Bool) (live : List Thread) (t : Time) :
    List BgState → Nat → List BgState × List Thread × Nat
  | [], cnt => ([], [], cnt)
  | b :: rest, cnt =>
    if enabled && !apiDrained && (t - b.last) ≥ env.cfg.signalTimeout && bgRunningDone live b then
      let tid := bgName b.kind ++ ":" ++ toString t
      if cnt < env.cfg.coroutineMaxSize then
        let (bs, ths, c) := startBg env enabled apiDrained live t rest (cnt + 1)
        ({ b with last := t, running := some tid } :: bs, newThread tid (some b.kind) (b.kind.body env) :: ths, c)
      else
        let (bs, ths, c) := startBg env enabled apiDrained live t rest cnt
        ({ b with last := t, running := none } :: bs, ths, c)
    else
      let (bs, ths, c) := startBg env enabled apiDrained live t rest cnt
      ({ b with running := if bgRunningDone live b then none else b.running } :: bs, ths, c)

/-- was a due background coroutine refused because the scheduler in-queue was full? -/
def bgRefused (env : Env) (enabled apiDrained : Bool) (live : List Thread) (t : Time) : List BgState → Nat → Bool
  | [], _ => false
  | b :: rest, cnt =>
    if enabled && !apiDrained && (t - b.last) ≥ env.cfg.signalTimeout && bgRunningDone live b then
      if cnt < env.cfg.coroutineMaxSize then bgRefused env enabled apiDrained live t rest (cnt + 1) else true
    else bgRefused env enabled apiDrained live t rest cnt

/-- when a background coroutine was refused, the registry is rotated by one so that another one goes first next tick -/
def rotate1 {α} : List α → List α
  | [] => []
  | x :: xs => xs ++ [x]

/-- dequeued API submissions become coroutines while the scheduler in-queue has room -/
def startReqs (env : Env) (t : Time) : List (String × Req) → Nat → List Thread × List Event
  | [], _ => ([], [])
  | q :: rest, cnt =>
    if cnt < env.cfg.coroutineMaxSize then
      let (ths, evs) := startReqs env t rest (cnt + 1)
      (newThread q.1 none (q.2.body env t) :: ths, evs)
    else
      let (ths, evs) := startReqs env t rest cnt
      (ths, .respond q.1 (.error S_SCHEDULER_QUEUE_FULL) :: evs)

/-- `RunUntilBlocked`: every runnable thread runs until it blocks or finishes -/
def runAll (t : Time) : List (Thread × Bool) → List Thread × List Event × List (SubId × Subm) × Option String
  | [] => ([], [], [], none)
  | (th, false) :: rest =>
    let (ths, evs, ds, h) := runAll t rest
    (th :: ths, evs, ds, h)
  | (th, true) :: rest =>
    let (th', ev, d, hh) := th.run t fuelPerThread
    let (ths, evs, ds, h) := runAll t rest
    ((match th' with | some x => [x] | none => []) ++ ths, ev ++ evs, d ++ ds, if hh.isSome then hh else h)

/-- `system.Tick(t)` -/
def Sys.tick (s : Sys) (t : Time) : Sys × List Event :=
  if s.halted.isSome then (s, []) else
  -- 1. deliver completions
  let threads1 := deliverAll s.threads (s.cq.take s.env.cfg.completionBatchSize)
  let cq' := s.cq.drop s.env.cfg.completionBatchSize
  -- 2. background coroutines (gated), 3. API submissions: both go through the scheduler's bounded in-queue
  let (bg', newBg, inCount) := startBg s.env s.bgEnabled (s.apiDone && s.apiQ.isEmpty) threads1 t s.bg 0
  let nDeq := dequeueCount s.env.cfg.submissionBatchSize s.apiQ.length
  let (newReq, rejected) := startReqs s.env t (s.apiQ.take nDeq) inCount
  -- 4. run until blocked: resumed threads, then new ones
  let candidates := threads1.map (fun th => match th.resume? t with | some th' => (th', true) | none => (th, false))
      ++ (newBg ++ newReq).map (fun th => (th, true))
  let (threads2, events, disp, halted) := runAll t candidates
  let bg'' := if bgRefused s.env s.bgEnabled (s.apiDone && s.apiQ.isEmpty) threads1 t s.bg 0 then rotate1 bg' else bg'
  ({ s with threads := threads2, apiQ := s.apiQ.drop nDeq, cq := cq', bg := bg'', pending := s.pending ++ disp, halted := halted },
   rejected ++ events)

/-- one store batch (`store.Process` on the listed submissions, with injected failures) -/
def Sys.execStore (s : Sys) (items : List (SubId × FailMode)) : Sys × Option StoreErr :=
  let find (id : SubId) : Option (List Cmd) :=
    match s.pending.find? (fun p => p.1 == id) with
    | some (_, .store tx) => some tx
    | _ => none
  let valid := items.filter fun it => (find it.1).isSome
  let processed := valid.filter fun it => it.2 != .before
  let txs := processed.filterMap fun it => find it.1
  let (db', r) := if txs.isEmpty then (s.db, Except.ok []) else s.db.execBatch s.g txs
  let completions : List (SubId × Cpl) :=
    match r with
    | .error _ => valid.map fun it => (it.1, Cpl.err)
    | .ok rss =>
      let okRes := (processed.zip rss).map fun (it, rs) => (it.1, if it.2 == .after then Cpl.err else Cpl.store rs)
      valid.map fun it =>
        if it.2 == .before then (it.1, Cpl.err)
        else match okRes.find? (fun x => x.1 == it.1) with
          | some x => x
          | none => (it.1, Cpl.err)
  ({ s with db := db', pending := s.pending.filter (fun p => !(valid.any fun it => it.1 == p.1)), cq := s.cq ++ completions },
   match r with | .error e => some e | .ok _ => none)

def Sys.step (s : Sys) : Choice → Sys × List Event
  | .submit tid r =>
    if s.apiDone then (s, [.respond tid (.error S_SHUTTING_DOWN)])
    else if s.apiQ.length < s.env.cfg.apiQueueSize then ({ s with apiQ := s.apiQ ++ [(tid, r)] }, [])
    else (s, [.respond tid (.error S_API_QUEUE_FULL)])
  | .tick t => s.tick t
  | .execStore items => ((s.execStore items).1, [])
  | .complete id c =>
    match s.pending.find? (fun p => p.1 == id) with
    | some (_, .store _) => (s, [])
    | some _ => ({ s with pending := s.pending.filter (fun p => p.1 != id), cq := s.cq ++ [(id, c)] }, [])
    | none => (s, [])
  | .shutdown => ({ s with apiDone := true }, [])
  | .crash =>
    ({ s with threads := [], apiQ := [], apiDone := false, pending := [], cq := [], bg := bgOrder.map fun k => { kind := k }, halted := none }, [])

def Sys.run (s : Sys) (cs : List Choice) : Sys := cs.foldl (fun s c => (s.step c).1) s

end Resonate
