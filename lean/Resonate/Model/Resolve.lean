/-
  Model/Resolve.lean — where a task goes: the router's reading of the routing tag
  (internal/app/subsystems/aio/router/router.go, `TagSource`, `coerce`, `json.Marshal`), and the sender's
  resolution of the stored receiver bytes to a transport
  (internal/app/subsystems/aio/sender/sender.go, `UnmarshalChain`, targets lookup, `schemeToRecv`, plugin by type).
  `url.Parse` (Go standard library) is a parameter: the correspondence harness supplies its result.
-/
import Resonate.Model.JsonScan
namespace Resonate.Resolve
open JsonScan

/-- case-insensitive field match of encoding/json (ASCII folding is enough for `type` / `data` / `url` ...) -/
def foldEq (k : List Char) (name : String) : Bool :=
  (k.map fun c => if 'A' ≤ c ∧ c ≤ 'Z' then Char.ofNat (c.toNat + 32) else c) == name.toList

/-- the outcome of decoding JSON into `receiver.Recv{Type string; Data json.RawMessage}` -/
structure RecvFields where
  type : List Char := []
  data : Option (List Char) := none     -- raw text; `none` = field absent (nil RawMessage)
  unknown : Bool := false               -- a key that is neither `type` nor `data` was present
  bad : Bool := false                   -- `type` held something that is neither a string nor null
deriving Repr, Inhabited

def recvFields (ms : List Member) : RecvFields :=
  ms.foldl (fun acc m =>
    if foldEq m.key "type" then
      match m.kind with
      | .str => match Json.decStr m.raw with
                | some (s, _) => { acc with type := s }
                | none => { acc with bad := true }
      | .nul => acc
      | _ => { acc with bad := true }
    else if foldEq m.key "data" then { acc with data := some m.raw }
    else { acc with unknown := true }) {}

/-- what the task is addressed to -/
inductive Address
  | logical (name : List Char)
  | physical (type : List Char) (data : Option (List Char))
deriving Repr, Inhabited, DecidableEq

/-- `TagSource` + `coerce`: a tag that is not JSON is a logical name; a JSON receiver object with a non-empty type
    (and no unknown field) is a physical receiver; every other JSON value does not route -/
def routeTag (tag : Option (List Char)) : Option Address :=
  match tag with
  | none => none
  | some v =>
    if valid v then
      match members v with
      | some ms =>
        let f := recvFields ms
        if !f.bad && !f.unknown && !f.type.isEmpty then some (.physical f.type f.data) else none
      | none => none
    else some (.logical v)

/-- the receiver bytes the router hands back (`json.Marshal` of the string / the Recv) and that are stored with the task -/
def recvBytes : Address → List Char
  | .logical n => Json.encStr n
  | .physical t d => "{\"type\":".toList ++ Json.encStr t ++ ",\"data\":".toList ++
      (match d with | some raw => compactGo false raw | none => "null".toList) ++ ['}']

/-- `util.UnmarshalChain(recv, &logical *string, &physical *Recv)` -/
inductive Stored
  | logical (name : List Char)
  | physical (type : List Char) (data : Option (List Char))
  | neither            -- `null`: both pointers stay nil
  | invalid            -- neither a string nor an object that decodes into Recv
deriving Repr, Inhabited, DecidableEq

def readStored (bytes : List Char) : Stored :=
  match topKind bytes with
  | none => .invalid
  | some .str => match Json.decStr (skipWs bytes) with
                 | some (s, _) => .logical s
                 | none => .invalid
  | some .nul => .neither
  | some .obj =>
    match members bytes with
    | some ms => let f := recvFields ms; if f.bad then .invalid else .physical f.type f.data
    | none => .invalid
  | some _ => .invalid

/-- the parts of a parsed URL the sender uses -/
structure Url where
  scheme : String
  host : String
  path : String
  str : String          -- `u.String()`
deriving Repr, Inhabited

structure Target where
  name : String
  type : String
  data : String
deriving Repr, Inhabited

def jsonObj (ps : List (String × String)) : String :=
  String.ofList (Json.encMap (ps.map fun kv => (kv.1.toList, kv.2.toList)))

/-- `strings.TrimPrefix(u.Path, "/")` -/
def pollId (path : String) : String := match path.toList with | '/' :: r => String.ofList r | l => String.ofList l

def schemeToRecv (parse : String → Option Url) (v : String) : Option (String × String) :=
  match parse v with
  | none => none
  | some u =>
    if u.scheme == "http" || u.scheme == "https" then some ("http", jsonObj [("url", u.str)])
    else if u.scheme == "poll" then
      let id := pollId u.path
      some ("poll", jsonObj ([("group", u.host)] ++ if id != "" then [("id", id)] else []))
    else none

inductive Outcome
  | handed (plugin : String) (data : String)   -- message given to this transport with this address
  | unknownReceiver
  | unknownPlugin (type : String)
  | undecodable                                -- stored bytes are not a receiver: failed hand-off
  | bothNil                                    -- stored bytes are `null`
deriving Repr, Inhabited, DecidableEq

/-- `SenderWorker.Process` up to the hand-off to the transport -/
def dispatch (targets : List Target) (plugins : List String) (parse : String → Option Url) (bytes : List Char) : Outcome :=
  let resolved : Except Outcome (String × String) :=
    match readStored bytes with
    | .invalid => .error .undecodable
    | .neither => .error .bothNil
    | .physical t d => .ok (String.ofList t, match d with | some raw => String.ofList raw | none => "")
    | .logical n =>
      let name := String.ofList n
      match targets.find? (·.name == name) with
      | some t => .ok (t.type, t.data)
      | none => match schemeToRecv parse name with
                | some r => .ok r
                | none => .error .unknownReceiver
  match resolved with
  | .error o => o
  | .ok (ty, data) => if plugins.contains ty then .handed ty data else .unknownPlugin ty

/-- `Sender.New`: the configured targets, plus the `default` target when none is configured (last entry of a name wins) -/
def effectiveTargets (configured : List Target) : List Target :=
  let dedup := configured.reverse.foldl (fun acc t => if acc.any (·.name == t.name) then acc else acc ++ [t]) []
  if dedup.any (·.name == "default") then dedup
  else dedup ++ [{ name := "default", type := "poll", data := "{\"group\":\"default\"}" }]

end Resonate.Resolve
