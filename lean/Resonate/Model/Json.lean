/-
  Model/Json.lean — Go's `encoding/json` for `string` and `map[string]string` (what resonate persists
  for header and tag maps), at the level of Unicode scalar values.
  Encoder = `json.Marshal` with HTML escaping (Go ≥ 1.22: `\b`, `\f` short forms); decoder = the inverse
  grammar `json.Unmarshal` accepts for such objects (compact form, standard escapes, `\uXXXX`).
  Validated against the real library by the `codecdiff` harness.
-/
namespace Resonate.Json

def hexDigit (d : Nat) : Char := if d < 10 then Char.ofNat (48 + d) else Char.ofNat (87 + d)

def hexVal (c : Char) : Option Nat :=
  let n := c.toNat
  if 48 ≤ n ∧ n ≤ 57 then some (n - 48)
  else if 97 ≤ n ∧ n ≤ 102 then some (n - 87)
  else if 65 ≤ n ∧ n ≤ 70 then some (n - 55)
  else none

def hex4 (n : Nat) : List Char := [hexDigit (n / 4096 % 16), hexDigit (n / 256 % 16), hexDigit (n / 16 % 16), hexDigit (n % 16)]

def hexVal4 (a b c d : Char) : Option Nat := do
  let x ← hexVal a; let y ← hexVal b; let z ← hexVal c; let w ← hexVal d
  pure (x * 4096 + y * 256 + z * 16 + w)

/-- characters `json.Marshal` writes as `\u00XX` / `\u20XX`: other control characters, `<`, `>`, `&`, U+2028, U+2029 -/
def needsU (c : Char) : Bool :=
  c.toNat < 32 || c == '<' || c == '>' || c == '&' || c.toNat == 0x2028 || c.toNat == 0x2029

def encChar (c : Char) : List Char :=
  if c == '"' then ['\\', '"']
  else if c == '\\' then ['\\', '\\']
  else if c == '\n' then ['\\', 'n']
  else if c == '\r' then ['\\', 'r']
  else if c == '\t' then ['\\', 't']
  else if c.toNat == 8 then ['\\', 'b']
  else if c.toNat == 12 then ['\\', 'f']
  else if needsU c then '\\' :: 'u' :: hex4 c.toNat
  else [c]

def encBody (cs : List Char) : List Char := cs.flatMap encChar

/-- decode a string body up to (and consuming) the closing quote; returns the decoded characters and the rest -/
def decBody : List Char → Option (List Char × List Char)
  | [] => none
  | '"' :: rest => some ([], rest)
  | '\\' :: 'u' :: a :: b :: c :: d :: rest =>
    match hexVal4 a b c d, decBody rest with
    | some v, some (cs, r) => some (Char.ofNat v :: cs, r)
    | _, _ => none
  | '\\' :: e :: rest =>
    let dec : Option Char :=
      if e == '"' then some '"' else if e == '\\' then some '\\' else if e == '/' then some '/'
      else if e == 'n' then some '\n' else if e == 'r' then some '\r' else if e == 't' then some '\t'
      else if e == 'b' then some (Char.ofNat 8) else if e == 'f' then some (Char.ofNat 12) else none
    match dec, decBody rest with
    | some ch, some (cs, r) => some (ch :: cs, r)
    | _, _ => none
  | c :: rest =>
    match decBody rest with
    | some (cs, r) => some (c :: cs, r)
    | none => none

def encStr (s : List Char) : List Char := '"' :: encBody s ++ ['"']

def decStr : List Char → Option (List Char × List Char)
  | '"' :: rest => decBody rest
  | _ => none

/-- `{"k":"v",...}` in the given order (Go sorts keys; the order is the caller's here) -/
def encPairs : List (List Char × List Char) → List Char
  | [] => []
  | [(k, v)] => encStr k ++ ':' :: encStr v
  | (k, v) :: rest => encStr k ++ ':' :: encStr v ++ ',' :: encPairs rest

def encMap (m : List (List Char × List Char)) : List Char := '{' :: encPairs m ++ ['}']

/-- pairs after the opening brace; `fuel` bounds the number of pairs -/
def decPairs : Nat → List Char → Option (List (List Char × List Char) × List Char)
  | 0, _ => none
  | fuel + 1, inp =>
    match decStr inp with
    | some (k, ':' :: r1) =>
      match decStr r1 with
      | some (v, ',' :: r2) =>
        match decPairs fuel r2 with
        | some (ps, r3) => some ((k, v) :: ps, r3)
        | none => none
      | some (v, '}' :: r2) => some ([(k, v)], r2)
      | _ => none
    | _ => none

def decMap (inp : List Char) : Option (List (List Char × List Char)) :=
  match inp with
  | '{' :: '}' :: [] => some []
  | '{' :: rest =>
    match decPairs (rest.length + 1) rest with
    | some (ps, []) => some ps
    | _ => none
  | _ => none

end Resonate.Json
