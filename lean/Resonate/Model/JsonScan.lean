/-
  Model/JsonScan.lean — a JSON scanner that keeps the RAW text of values (what `json.RawMessage` holds), the
  validity check of `json.Valid`, and `compact` with Go's HTML escaping (what `json.Marshal` does to a RawMessage).
  Used by Model/Resolve.lean for the routing tag (router) and the stored receiver bytes (sender).
-/
import Resonate.Model.Json
namespace Resonate.JsonScan

def isWs (c : Char) : Bool := c == ' ' || c == '\n' || c == '\t' || c == '\r'

def skipWs : List Char → List Char
  | [] => []
  | c :: r => if isWs c then skipWs r else c :: r

inductive Kind | str | num | obj | arr | tru | fls | nul
deriving DecidableEq, Repr, Inhabited

def isHex (c : Char) : Bool := (Json.hexVal c).isSome

/-- after the opening quote: the rest after the closing quote (escapes checked as Go's scanner does) -/
def strRest : List Char → Option (List Char)
  | [] => none
  | '"' :: r => some r
  | '\\' :: 'u' :: a :: b :: c :: d :: r => if isHex a && isHex b && isHex c && isHex d then strRest r else none
  | '\\' :: e :: r => if "\"\\/bfnrt".toList.contains e then strRest r else none
  | c :: r => if c.toNat < 0x20 then none else strRest r

def digits : List Char → List Char
  | c :: r => if c.isDigit then digits r else c :: r
  | [] => []

/-- `-? (0 | [1-9][0-9]*) (\. [0-9]+)? ([eE] [+-]? [0-9]+)?` -/
def numRest (inp : List Char) : Option (List Char) :=
  let inp := match inp with | '-' :: r => r | _ => inp
  let afterInt : Option (List Char) := match inp with
    | '0' :: r => some r
    | c :: r => if c.isDigit then some (digits r) else none
    | [] => none
  match afterInt with
  | none => none
  | some r =>
    let afterFrac : Option (List Char) := match r with
      | '.' :: c :: r' => if c.isDigit then some (digits r') else none
      | '.' :: [] => none
      | _ => some r
    match afterFrac with
    | none => none
    | some r =>
      match r with
      | e :: r' =>
        if e == 'e' || e == 'E' then
          let r'' := match r' with | '+' :: x => x | '-' :: x => x | _ => r'
          match r'' with
          | c :: x => if c.isDigit then some (digits x) else none
          | [] => none
        else some r
      | [] => some r

def litRest (lit : String) (inp : List Char) : Option (List Char) :=
  if lit.toList.isPrefixOf inp then some (inp.drop lit.length) else none

mutual
/-- one value (no leading whitespace): its kind and the rest of the input -/
def scanValue : Nat → List Char → Option (Kind × List Char)
  | 0, _ => none
  | fuel + 1, inp =>
    match inp with
    | '"' :: r => (strRest r).map fun x => (.str, x)
    | '{' :: r =>
      match skipWs r with
      | '}' :: x => some (.obj, x)
      | x => (scanMembers fuel x).map fun y => (.obj, y)
    | '[' :: r =>
      match skipWs r with
      | ']' :: x => some (.arr, x)
      | x => (scanElems fuel x).map fun y => (.arr, y)
    | 't' :: _ => (litRest "true" inp).map fun x => (.tru, x)
    | 'f' :: _ => (litRest "false" inp).map fun x => (.fls, x)
    | 'n' :: _ => (litRest "null" inp).map fun x => (.nul, x)
    | _ => (numRest inp).map fun x => (.num, x)
/-- members after `{ ws`, up to and including the closing brace -/
def scanMembers : Nat → List Char → Option (List Char)
  | 0, _ => none
  | fuel + 1, inp =>
    match inp with
    | '"' :: r =>
      match strRest r with
      | none => none
      | some r1 =>
        match skipWs r1 with
        | ':' :: r2 =>
          match scanValue fuel (skipWs r2) with
          | none => none
          | some (_, r3) =>
            match skipWs r3 with
            | ',' :: r4 => scanMembers fuel (skipWs r4)
            | '}' :: r4 => some r4
            | _ => none
        | _ => none
    | _ => none
def scanElems : Nat → List Char → Option (List Char)
  | 0, _ => none
  | fuel + 1, inp =>
    match scanValue fuel inp with
    | none => none
    | some (_, r1) =>
      match skipWs r1 with
      | ',' :: r2 => scanElems fuel (skipWs r2)
      | ']' :: r2 => some r2
      | _ => none
end

/-- `json.Valid` -/
def valid (s : List Char) : Bool :=
  let inp := skipWs s
  match scanValue (inp.length + 1) inp with
  | some (_, r) => (skipWs r).isEmpty
  | none => false

/-- kind of a valid top-level value -/
def topKind (s : List Char) : Option Kind :=
  let inp := skipWs s
  match scanValue (inp.length + 1) inp with
  | some (k, r) => if (skipWs r).isEmpty then some k else none
  | none => none

structure Member where
  key : List Char        -- decoded
  kind : Kind
  raw : List Char        -- raw text of the value
deriving Repr, Inhabited

/-- members of an object, starting after `{ ws` (input known to be valid) -/
def membersFrom : Nat → List Char → List Member
  | 0, _ => []
  | fuel + 1, inp =>
    match Json.decStr inp with
    | some (k, r1) =>
      match skipWs r1 with
      | ':' :: r2 =>
        let v := skipWs r2
        match scanValue (v.length + 1) v with
        | some (kind, r3) =>
          let m : Member := { key := k, kind := kind, raw := v.take (v.length - r3.length) }
          match skipWs r3 with
          | ',' :: r4 => m :: membersFrom fuel (skipWs r4)
          | _ => [m]
        | none => []
      | _ => []
    | none => []

/-- the members of a valid top-level JSON object -/
def members (s : List Char) : Option (List Member) :=
  if topKind s == some .obj then
    match skipWs s with
    | '{' :: r => some (membersFrom (r.length + 1) (skipWs r))
    | _ => none
  else none

/-- Go's `compact` with `escapeHTML`: whitespace outside strings dropped; `<`, `>`, `&`, U+2028, U+2029 escaped -/
def compactGo : Bool → List Char → List Char
  | _, [] => []
  | true, '\\' :: e :: r => '\\' :: e :: compactGo true r
  | true, '"' :: r => '"' :: compactGo false r
  | false, '"' :: r => '"' :: compactGo true r
  | inStr, c :: r =>
    if c == '<' then "\\u003c".toList ++ compactGo inStr r
    else if c == '>' then "\\u003e".toList ++ compactGo inStr r
    else if c == '&' then "\\u0026".toList ++ compactGo inStr r
    else if c.toNat == 0x2028 then "\\u2028".toList ++ compactGo inStr r
    else if c.toNat == 0x2029 then "\\u2029".toList ++ compactGo inStr r
    else if !inStr && isWs c then compactGo inStr r
    else c :: compactGo inStr r

end Resonate.JsonScan
