/-
  Model/Api.lean — API-level objects (`pkg/promise.Promise`, `task.Task`, …), kernel requests and
  responses (`t_api.Request` / `t_api.Response`), status codes and record→object conversions.
-/
import Resonate.Model.Types
namespace Resonate

abbrev Time := Int

/-! ### status codes (`t_api/status.go`) -/
def S_OK : Nat := 20000
def S_CREATED : Nat := 20100
def S_NOCONTENT : Nat := 20400
def S_FIELD_VALIDATION : Nat := 40000
def S_CALLBACK_INVALID_PROMISE : Nat := 40001
def S_PROMISE_ALREADY_RESOLVED : Nat := 40300
def S_PROMISE_ALREADY_REJECTED : Nat := 40301
def S_PROMISE_ALREADY_CANCELED : Nat := 40302
def S_PROMISE_ALREADY_TIMEDOUT : Nat := 40303
def S_LOCK_ALREADY_ACQUIRED : Nat := 40304
def S_TASK_ALREADY_CLAIMED : Nat := 40305
def S_TASK_ALREADY_COMPLETED : Nat := 40306
def S_TASK_INVALID_COUNTER : Nat := 40307
def S_TASK_INVALID_STATE : Nat := 40308
def S_PROMISE_NOT_FOUND : Nat := 40400
def S_SCHEDULE_NOT_FOUND : Nat := 40401
def S_LOCK_NOT_FOUND : Nat := 40402
def S_TASK_NOT_FOUND : Nat := 40403
def S_PROMISE_RECV_NOT_FOUND : Nat := 40404
def S_PROMISE_ALREADY_EXISTS : Nat := 40900
def S_SCHEDULE_ALREADY_EXISTS : Nat := 40901
def S_INTERNAL : Nat := 50000
def S_AIO_ECHO : Nat := 50001
def S_AIO_MATCH : Nat := 50002
def S_AIO_QUEUE : Nat := 50003
def S_AIO_STORE : Nat := 50004
def S_SHUTTING_DOWN : Nat := 50300
def S_API_QUEUE_FULL : Nat := 50301
def S_AIO_QUEUE_FULL : Nat := 50302
def S_SCHEDULER_QUEUE_FULL : Nat := 50303

/-! ### objects -/

structure Promise where
  id : String
  state : Nat
  param : Value
  value : Value
  timeout : Int
  idempotencyKeyForCreate : Option String
  idempotencyKeyForComplete : Option String
  tags : SMap
  createdOn : Option Int
  completedOn : Option Int
deriving DecidableEq, Repr, Inhabited

structure Task where
  id : String
  counter : Int
  timeout : Int
  processId : Option String
  state : Nat
  rootPromiseId : String
  recv : String
  mesg : Mesg
  attempt : Int
  ttl : Int
  expiresAt : Int
  createdOn : Option Int
  completedOn : Option Int
deriving DecidableEq, Repr, Inhabited

structure Callback where
  id : String
  promiseId : String
  recv : String
  mesg : Mesg
  timeout : Int
  createdOn : Int
deriving DecidableEq, Repr, Inhabited

structure Schedule where
  id : String
  description : String
  cron : String
  tags : SMap
  promiseId : String
  promiseTimeout : Int
  promiseParam : Value
  promiseTags : SMap
  lastRunTime : Option Int
  nextRunTime : Int
  idempotencyKey : Option String
  createdOn : Int
deriving DecidableEq, Repr, Inhabited

structure Lock where
  resourceId : String
  executionId : String
  processId : String
  ttl : Int
  expiresAt : Int
deriving DecidableEq, Repr, Inhabited

/-- `PromiseRecord.Promise()`: NULL blobs become empty maps / empty data. -/
def PromiseRow.toPromise (r : PromiseRow) : Promise :=
  { id := r.id, state := r.state, param := { headers := r.paramHeaders, data := r.paramData },
    value := { headers := r.valueHeaders.getD [], data := r.valueData.getD "" }, timeout := r.timeout,
    idempotencyKeyForCreate := r.idempotencyKeyForCreate, idempotencyKeyForComplete := r.idempotencyKeyForComplete,
    tags := r.tags, createdOn := r.createdOn, completedOn := r.completedOn }

def TaskRow.toTask (r : TaskRow) : Task :=
  { id := r.id, counter := r.counter, timeout := r.timeout, processId := r.processId, state := r.state,
    rootPromiseId := r.rootPromiseId, recv := r.recv, mesg := r.mesg, attempt := r.attempt, ttl := r.ttl,
    expiresAt := r.expiresAt, createdOn := r.createdOn, completedOn := r.completedOn }

def ScheduleRow.toSchedule (r : ScheduleRow) : Schedule :=
  { id := r.id, description := r.description, cron := r.cron, tags := r.tags, promiseId := r.promiseId,
    promiseTimeout := r.promiseTimeout, promiseParam := { headers := r.promiseParamHeaders, data := r.promiseParamData },
    promiseTags := r.promiseTags, lastRunTime := r.lastRunTime, nextRunTime := r.nextRunTime,
    idempotencyKey := r.idempotencyKey, createdOn := r.createdOn }

def LockRow.toLock (r : LockRow) : Lock :=
  { resourceId := r.resourceId, executionId := r.executionId, processId := r.processId, ttl := r.ttl, expiresAt := r.expiresAt }

/-- `promise.GetTimedoutState` -/
def timedoutState (tags : SMap) : Nat :=
  if tags.get? "resonate:timeout" == some "true" then P_RESOLVED else P_TIMEDOUT

/-- `idempotency.Key.Match`: both present and equal -/
def keyMatch (a b : Option String) : Bool :=
  match a, b with
  | some x, some y => x == y
  | _, _ => false

/-! ### requests -/

structure CreatePromiseReq where
  id : String
  idempotencyKey : Option String
  strict : Bool
  param : Value
  timeout : Int
  tags : SMap
deriving DecidableEq, Repr, Inhabited

structure CreateTaskReq where
  promiseId : String
  processId : String
  ttl : Int
  timeout : Int
deriving DecidableEq, Repr, Inhabited

structure CompletePromiseReq where
  id : String
  idempotencyKey : Option String
  strict : Bool
  state : Nat
  value : Value
deriving DecidableEq, Repr, Inhabited

structure SearchPromisesReq where
  id : String
  states : List Nat
  tags : SMap
  limit : Int
  sortId : Option Int
deriving DecidableEq, Repr, Inhabited

structure SearchSchedulesReq where
  id : String
  tags : SMap
  limit : Int
  sortId : Option Int
deriving DecidableEq, Repr, Inhabited

structure CreateCallbackReq where
  promiseId : String
  rootPromiseId : String
  timeout : Int
  recv : String
deriving DecidableEq, Repr, Inhabited

structure CreateSubscriptionReq where
  id : String
  promiseId : String
  timeout : Int
  recv : String
deriving DecidableEq, Repr, Inhabited

structure CreateScheduleReq where
  id : String
  description : String
  cron : String
  tags : SMap
  promiseId : String
  promiseTimeout : Int
  promiseParam : Value
  promiseTags : SMap
  idempotencyKey : Option String
deriving DecidableEq, Repr, Inhabited

structure AcquireLockReq where
  resourceId : String
  executionId : String
  processId : String
  ttl : Int
deriving DecidableEq, Repr, Inhabited

structure ClaimTaskReq where
  id : String
  counter : Int
  processId : String
  ttl : Int
deriving DecidableEq, Repr, Inhabited

inductive Req
  | readPromise (id : String)
  | searchPromises (r : SearchPromisesReq)
  | createPromise (r : CreatePromiseReq)
  | createPromiseAndTask (p : CreatePromiseReq) (t : CreateTaskReq)
  | completePromise (r : CompletePromiseReq)
  | createCallback (r : CreateCallbackReq)
  | createSubscription (r : CreateSubscriptionReq)
  | readSchedule (id : String)
  | searchSchedules (r : SearchSchedulesReq)
  | createSchedule (r : CreateScheduleReq)
  | deleteSchedule (id : String)
  | acquireLock (r : AcquireLockReq)
  | releaseLock (resourceId executionId : String)
  | heartbeatLocks (processId : String)
  | claimTask (r : ClaimTaskReq)
  | completeTask (id : String) (counter : Int)
  | heartbeatTasks (processId : String)
deriving DecidableEq, Repr, Inhabited

/-! ### responses -/

inductive Resp
  /-- read / create / complete promise: status + promise -/
  | promise (status : Nat) (p : Option Promise)
  | promiseTask (status : Nat) (p : Option Promise) (t : Option Task)
  | searchPromises (status : Nat) (ps : List Promise) (cursor : Option SearchPromisesReq)
  /-- create callback / create subscription -/
  | callback (status : Nat) (p : Option Promise) (cb : Option Callback)
  | schedule (status : Nat) (s : Option Schedule)
  | searchSchedules (status : Nat) (ss : List Schedule) (cursor : Option SearchSchedulesReq)
  /-- delete schedule / release lock -/
  | status (status : Nat)
  | lock (status : Nat) (l : Option Lock)
  /-- heartbeat locks / tasks -/
  | count (status : Nat) (n : Nat)
  | claim (status : Nat) (t : Option Task) (rp lp : Option Promise) (rh lh : String)
  | task (status : Nat) (t : Option Task)
  /-- `t_api.Error` with its code (no response object) -/
  | error (code : Nat)
deriving DecidableEq, Repr, Inhabited

def Resp.statusCode : Resp → Nat
  | .promise s _ | .promiseTask s _ _ | .searchPromises s _ _ | .callback s _ _ | .schedule s _
  | .searchSchedules s _ _ | .status s | .lock s _ | .count s _ | .claim s _ _ _ _ _ | .task s _ | .error s => s

/-- kernel configuration (`system.Config`) as far as the coroutines read it -/
structure Config where
  url : String := ""
  coroutineMaxSize : Nat := 1000
  submissionBatchSize : Nat := 1000
  completionBatchSize : Nat := 1000
  promiseBatchSize : Nat := 100
  scheduleBatchSize : Nat := 100
  taskBatchSize : Nat := 100
  taskEnqueueDelay : Int := 10000
  signalTimeout : Int := 1000
  apiQueueSize : Nat := 100
deriving DecidableEq, Repr, Inhabited

end Resonate
