/-
  Model/Poll.lean — the poll transport's connection registry and `PollWorker.Process`
  (internal/app/plugins/poll/poll.go): `connections.add / rmv / get` and the hand-off of one message.
  The random choice among the members of a group is a parameter (`pick`); theorems hold for every pick.
-/
import Resonate.Model.Json
namespace Resonate.Poll

structure Conn where
  handle : Nat          -- identity of the connection object (its channel)
  group : String
  id : String
  cap : Nat             -- channel buffer size
  buf : List String     -- bodies accepted and not yet read
deriving DecidableEq, Repr, Inhabited

structure St where
  max : Nat
  conns : List Conn := []          -- registered connections (registration order)
  closed : List Nat := []          -- handles whose channel has been closed, most recent first
  next : Nat := 0                  -- handle of the next connection object (each HTTP poll request makes a new one)
  down : Bool := false             -- the send queue has been closed (server stopping): the loop closes whatever registers
  log : List (Nat × String) := []  -- every accepted hand-off (channel, body), oldest first: what the clients' streams carry
deriving Repr, Inhabited

/-- `c.id == conn.id && (c.ch == conn.ch || !match)` inside the group's slice -/
def hit (c : Conn) (g i : String) (h : Option Nat) : Bool :=
  c.group == g && c.id == i && (match h with | some x => c.handle == x | none => true)

/-- remove the first registered connection with this group and id (and, if `handle` is given, this very channel); close it -/
def rmvFirst : List Conn → String → String → Option Nat → List Conn × Option Nat
  | [], _, _, _ => ([], none)
  | c :: rest, g, i, h =>
    if hit c g i h then (rest, some c.handle)
    else ((rmvFirst rest g i h).1.cons c, (rmvFirst rest g i h).2)

/-- `connections.add`: a connection with the same group and id is replaced (and closed); at the limit the
    new connection is closed immediately instead of being registered -/
def add (s : St) (c : Conn) : St :=
  let (conns1, x) := rmvFirst s.conns c.group c.id none
  let closed1 := match x with | some h => h :: s.closed | none => s.closed
  if conns1.length ≥ s.max then { s with conns := conns1, closed := c.handle :: closed1 }
  else { s with conns := conns1 ++ [c], closed := closed1 }

/-- `connections.rmv(conn, true)`: only the very connection (same channel) is removed and closed -/
def rmv (s : St) (c : Conn) : St :=
  let (conns1, x) := rmvFirst s.conns c.group c.id (some c.handle)
  { s with conns := conns1, closed := match x with | some h => h :: s.closed | none => s.closed }

/-- `connections.get` -/
def get (s : St) (group id : String) (pick : Nat) : Option Conn :=
  let members := s.conns.filter (·.group == group)
  if members.isEmpty then none
  else match (if id != "" then members.find? (·.id == id) else none) with
    | some c => some c
    | none => members[pick % members.length]?

inductive Outcome | delivered (handle : Nat) | noConnection | notifyWrongId | full
deriving DecidableEq, Repr, Inhabited

/-- the connection with channel `hd` gets `b` appended to its stream -/
def bumpConn (hd : Nat) (b : String) (x : Conn) : Conn := if x.handle == hd then { x with buf := x.buf ++ [b] } else x

def bump (s : St) (hd : Nat) (b : String) : St := { s with conns := s.conns.map (bumpConn hd b), log := s.log ++ [(hd, b)] }

/-- the client of channel `hd` reads one body off its stream -/
def readOne (s : St) (hd : Nat) : St :=
  { s with conns := s.conns.map fun x => if x.handle == hd then { x with buf := x.buf.tail } else x }

/-- `PollWorker.Process` after the address has been decoded -/
def process (s : St) (notify : Bool) (group id body : String) (pick : Nat) : St × Outcome :=
  match get s group id pick with
  | none => (s, .noConnection)
  | some c =>
    if notify && c.id != id then (s, .notifyWrongId)
    else if c.buf.length < c.cap then
      (bump s c.handle body, .delivered c.handle)
    else (s, .full)

/-- shutdown branch of the worker: every registered channel is closed once, the registry emptied
    (Go ranges over a map: the order of the closes is unspecified and not modelled) -/
def shutdown (s : St) : St := { s with conns := [], closed := s.conns.map (·.handle) ++ s.closed }

inductive Op
  /-- a new connection object asks to be registered (`/poll/{group}/{id}` request) -/
  | connect (group id : String) (cap : Nat)
  /-- the request of connection object `handle` ended; it is looked up by its group, id and channel -/
  | disconnect (handle : Nat) (group id : String)
  | send (notify : Bool) (group id body : String) (pick : Nat)
  | shutdown
  /-- the HTTP handler of connection `handle` takes one body off the channel and writes it to its client -/
  | read (handle : Nat)
deriving Repr, Inhabited

/-- one iteration of `PollWorker.Start`; once the send queue is closed, every iteration ends by closing all
    registered channels, and no further message is taken -/
def step (s : St) : Op → St
  | .connect g i cap =>
    let s' := add { s with next := s.next + 1 } { handle := s.next, group := g, id := i, cap := cap, buf := [] }
    if s.down then shutdown s' else s'
  | .disconnect h g i =>
    let s' := rmv s { handle := h, group := g, id := i, cap := 0, buf := [] }
    if s.down then shutdown s' else s'
  | .send n g i b p => if s.down then s else (process s n g i b p).1
  | .shutdown => shutdown { s with down := true }
  | .read h => readOne s h

/-! ### the address (`mesg.Data`) -/

inductive DataRes | null | bad | ok (group id : String)
deriving DecidableEq, Repr, Inhabited

def asciiLower (s : List Char) : List Char := s.map fun c => if 'A' ≤ c ∧ c ≤ 'Z' then Char.ofNat (c.toNat + 32) else c

/-- last pair whose key matches the field name case-insensitively (encoding/json struct decoding) -/
def field (name : List Char) (m : List (List Char × List Char)) : List Char :=
  match (m.reverse.find? fun kv => asciiLower kv.1 == name) with
  | some kv => kv.2
  | none => []

/-- `json.Unmarshal(mesg.Data, &data)` with `data *Data` for flat objects with string values
    (the shapes the sender produces and the correspondence generator draws) -/
def decodeData (raw : String) : DataRes :=
  if raw == "null" then .null
  else match Json.decMap raw.toList with
    | none => .bad
    | some m => .ok (String.ofList (field "group".toList m)) (String.ofList (field "id".toList m))

def run (s : St) (ops : List Op) : St := ops.foldl step s

/-- `PollWorker.Process` from the raw address bytes: an undecodable or `null` address is a failed hand-off -/
def processRaw (s : St) (notify : Bool) (data body : String) (pick : Nat) : St × Option Outcome :=
  match decodeData data with
  | .ok g i => let r := process s notify g i body pick; (r.1, some r.2)
  | _ => (s, none)

end Resonate.Poll
