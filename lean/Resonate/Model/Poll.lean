/-
  Model/Poll.lean — the poll transport's connection registry and `PollWorker.Process`
  (internal/app/plugins/poll/poll.go): `connections.add / rmv / get` and the hand-off of one message.
  The random choice among the members of a group is a parameter (`pick`); theorems hold for every pick.
-/
namespace Resonate.Poll

structure Conn where
  handle : Nat          -- identity of the connection object (its channel)
  group : String
  id : String
  cap : Nat             -- channel buffer size
  buf : List String     -- bodies accepted and not yet read
deriving DecidableEq, Repr, Inhabited

structure St where
  max : Nat
  conns : List Conn := []          -- registered connections (registration order)
  closed : List Nat := []          -- handles whose channel has been closed, most recent first
  next : Nat := 0                  -- handle of the next connection object (each HTTP poll request makes a new one)
deriving Repr, Inhabited

/-- remove the first registered connection with this group and id (and, if `handle` is given, this very channel); close it -/
def rmvFirst : List Conn → String → String → Option Nat → List Conn × Option Nat
  | [], _, _, _ => ([], none)
  | c :: rest, g, i, h =>
    if c.group == g && c.id == i && (match h with | some x => c.handle == x | none => true) then (rest, some c.handle)
    else let (r, x) := rmvFirst rest g i h; (c :: r, x)

/-- `connections.add`: a connection with the same group and id is replaced (and closed); at the limit the
    new connection is closed immediately instead of being registered -/
def add (s : St) (c : Conn) : St :=
  let (conns1, x) := rmvFirst s.conns c.group c.id none
  let closed1 := match x with | some h => h :: s.closed | none => s.closed
  if conns1.length ≥ s.max then { s with conns := conns1, closed := c.handle :: closed1 }
  else { s with conns := conns1 ++ [c], closed := closed1 }

/-- `connections.rmv(conn, true)`: only the very connection (same channel) is removed and closed -/
def rmv (s : St) (c : Conn) : St :=
  let (conns1, x) := rmvFirst s.conns c.group c.id (some c.handle)
  { s with conns := conns1, closed := match x with | some h => h :: s.closed | none => s.closed }

/-- `connections.get` -/
def get (s : St) (group id : String) (pick : Nat) : Option Conn :=
  let members := s.conns.filter (·.group == group)
  if members.isEmpty then none
  else match (if id != "" then members.find? (·.id == id) else none) with
    | some c => some c
    | none => members[pick % members.length]?

inductive Outcome | delivered (handle : Nat) | noConnection | notifyWrongId | full
deriving DecidableEq, Repr, Inhabited

/-- `PollWorker.Process` after the address has been decoded -/
def process (s : St) (notify : Bool) (group id body : String) (pick : Nat) : St × Outcome :=
  match get s group id pick with
  | none => (s, .noConnection)
  | some c =>
    if notify && c.id != id then (s, .notifyWrongId)
    else if c.buf.length < c.cap then
      ({ s with conns := s.conns.map fun x => if x.handle == c.handle then { x with buf := x.buf ++ [body] } else x }, .delivered c.handle)
    else (s, .full)

/-- shutdown branch of the worker: every registered channel is closed once, the registry emptied -/
def shutdown (s : St) : St := { s with conns := [], closed := (s.conns.map (·.handle)).reverse ++ s.closed }

inductive Op
  /-- a new connection object asks to be registered (`/poll/{group}/{id}` request) -/
  | connect (group id : String) (cap : Nat)
  /-- the request of connection object `handle` ended; it is looked up by its group, id and channel -/
  | disconnect (handle : Nat) (group id : String)
  | send (notify : Bool) (group id body : String) (pick : Nat)
  | shutdown
deriving Repr, Inhabited

def step (s : St) : Op → St
  | .connect g i cap => add { s with next := s.next + 1 } { handle := s.next, group := g, id := i, cap := cap, buf := [] }
  | .disconnect h g i => rmv s { handle := h, group := g, id := i, cap := 0, buf := [] }
  | .send n g i b p => (process s n g i b p).1
  | .shutdown => shutdown s

def run (s : St) (ops : List Op) : St := ops.foldl step s

end Resonate.Poll
