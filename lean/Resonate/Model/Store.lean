/-
  Model/Store.lean — semantics of the 27 store commands, transactions and batches, written over
  an arbitrary `SqlDefs` instance (the guards / assignments / row constructors generated from the
  SQL text of /repo).  Mirrors `performCommands` + the per-command handlers of
  store/sqlite/sqlite.go and store/postgres/postgres.go, and `store.Process` / `Execute`
  (one SQL transaction per batch, rollback on the first error).
-/
import Resonate.Model.SqlDefs
namespace Resonate

/-- the shape (untranslated clauses) the semantics below assumes for each statement; both generated
    instances are pinned against it in `Proofs/Pins.lean` (dialect differences listed there). -/
def expectedShapeCommon : List (String × String) := [
  ("promiseSelect", "select promises distinct=- group=- order=[] limit=none"),
  ("promiseSelectAll", "select promises distinct=- group=- order=[] limit=param"),
  ("promiseSearch", "select promises distinct=- group=- order=[sort_id DESC] limit=param"),
  ("promiseInsert", "insert promises conflict=id:nothing"),
  ("promiseUpdate", "update promises"),
  ("callbackInsert", "insert-select callbacks from=- order=[]"),
  ("callbackDelete", "delete callbacks"),
  ("scheduleSelect", "select schedules distinct=- group=- order=[] limit=none"),
  ("scheduleSelectAll", "select schedules distinct=- group=- order=[next_run_time ASC,sort_id ASC] limit=param"),
  ("scheduleSearch", "select schedules distinct=- group=- order=[sort_id DESC] limit=param"),
  ("scheduleInsert", "insert schedules conflict=id:nothing"),
  ("scheduleUpdate", "update schedules"),
  ("scheduleDelete", "delete schedules"),
  ("lockRead", "select locks distinct=- group=- order=[] limit=none"),
  ("lockAcquire", "insert locks conflict=resource_id:update"),
  ("lockRelease", "delete locks"),
  ("lockHeartbeat", "update locks"),
  ("lockTimeout", "delete locks"),
  ("taskSelect", "select tasks distinct=- group=- order=[] limit=none"),
  ("taskSelectAll", "select tasks distinct=- group=- order=[root_promise_id ASC,sort_id ASC] limit=param")]

def expectedShapeTail : List (String × String) := [
  ("taskInsert", "insert tasks conflict=id:nothing"),
  ("taskInsertAll", "insert-select tasks from=callbacks order=[id ASC]"),
  ("taskUpdate", "update tasks"),
  ("taskCompleteByRootId", "update tasks"),
  ("taskHeartbeat", "update tasks")]

/-- sqlite picks one row per root with a bare-column GROUP BY, Postgres with DISTINCT ON. -/
def expectedShapeSqlite : List (String × String) :=
  expectedShapeCommon ++
  [("taskSelectEnqueueable", "select tasks distinct=- group=root_promise_id order=[root_promise_id ASC,sort_id ASC] limit=param")] ++
  expectedShapeTail

def expectedShapePg : List (String × String) :=
  expectedShapeCommon ++
  [("taskSelectEnqueueable", "select tasks distinct=root_promise_id group=- order=[root_promise_id ASC,sort_id ASC] limit=param")] ++
  expectedShapeTail

def expectedWiring : List (String × String) := [
  ("AcquireLock", "acquireLock(LOCK_ACQUIRE_STATEMENT)"),
  ("CompleteTasks", "completeTasks(TASK_COMPLETE_BY_ROOT_ID_STATEMENT)"),
  ("CreateCallback", "createCallback(CALLBACK_INSERT_STATEMENT)"),
  ("CreatePromise", "createPromise(PROMISE_INSERT_STATEMENT)"),
  ("CreatePromiseAndTask", "createPromiseAndTask(PROMISE_INSERT_STATEMENT,TASK_INSERT_STATEMENT)"),
  ("CreateSchedule", "createSchedule(SCHEDULE_INSERT_STATEMENT)"),
  ("CreateTask", "createTask(TASK_INSERT_STATEMENT)"),
  ("CreateTasks", "createTasks(TASK_INSERT_ALL_STATEMENT)"),
  ("DeleteCallbacks", "deleteCallbacks(CALLBACK_DELETE_STATEMENT)"),
  ("DeleteSchedule", "deleteSchedule(SCHEDULE_DELETE_STATEMENT)"),
  ("HeartbeatLocks", "hearbeatLocks(LOCK_HEARTBEAT_STATEMENT)"),
  ("HeartbeatTasks", "heartbeatTasks(TASK_HEARTBEAT_STATEMENT)"),
  ("ReadEnqueueableTasks", "readEnqueueableTasks()"),
  ("ReadLock", "readLock()"),
  ("ReadPromise", "readPromise()"),
  ("ReadPromises", "readPromises()"),
  ("ReadSchedule", "readSchedule()"),
  ("ReadSchedules", "readSchedules()"),
  ("ReadTask", "readTask()"),
  ("ReadTasks", "readTasks()"),
  ("ReleaseLock", "releaseLock(LOCK_RELEASE_STATEMENT)"),
  ("SearchPromises", "searchPromises()"),
  ("SearchSchedules", "searchSchedules()"),
  ("TimeoutLocks", "timeoutLocks(LOCK_TIMEOUT_STATEMENT)"),
  ("UpdatePromise", "updatePromise(PROMISE_UPDATE_STATEMENT)"),
  ("UpdateSchedule", "updateSchedule(SCHEDULE_UPDATE_STATEMENT)"),
  ("UpdateTask", "updateTask(TASK_UPDATE_STATEMENT)")]

def expectedUniquesSqlite : List (String × List String) := [
  ("callbacks", ["id"]), ("locks", ["resource_id"]), ("migrations", ["id"]),
  ("promises", ["id", "sort_id"]), ("schedules", ["id", "sort_id"]), ("tasks", ["id", "sort_id"])]

/-- Postgres: `sort_id SERIAL` carries no uniqueness constraint (values come from a sequence). -/
def expectedUniquesPg : List (String × List String) := [
  ("callbacks", ["id"]), ("locks", ["resource_id"]), ("migrations", ["id"]),
  ("promises", ["id"]), ("schedules", ["id"]), ("tasks", ["id"])]

/-- number of rows satisfying `p` -/
def countP {α} (p : α → Bool) (l : List α) : Nat := (l.filter p).length

/-- UPDATE … SET … WHERE … over a table -/
def updateWhere {α} (p : α → Bool) (f : α → α) (l : List α) : List α :=
  l.map fun r => if p r then f r else r

/-- first task of each root in a list sorted by (root, sort_id) -/
def firstPerRoot : List TaskRow → List TaskRow
  | [] => []
  | t :: rest => t :: firstPerRoot (rest.filter fun u => u.rootPromiseId != t.rootPromiseId)
termination_by l => l.length
decreasing_by
  simp
  exact Nat.lt_succ_of_le (List.length_filter_le _ _)

def taskOrdLe (a b : TaskRow) : Bool :=
  a.rootPromiseId < b.rootPromiseId || (a.rootPromiseId == b.rootPromiseId && a.sortId ≤ b.sortId)

def schedOrdLe (a b : ScheduleRow) : Bool :=
  a.nextRunTime < b.nextRunTime || (a.nextRunTime == b.nextRunTime && a.sortId ≤ b.sortId)

def cbOrdLe (a b : CallbackRow) : Bool := a.id ≤ b.id

/-- `TASK_INSERT_ALL`: one task per selected callback, in `id` order; no conflict clause, so an
    existing task with the same id is a UNIQUE violation that fails the statement. -/
def insertTasksFrom (g : SqlDefs) (c : CreateTasksCmd) : List CallbackRow → List TaskRow → Nat →
    Except StoreErr (List TaskRow × Nat × Nat)
  | [], tasks, seq => .ok (tasks, seq, 0)
  | cb :: rest, tasks, seq =>
      let row := g.taskInsertAll_row c cb (seq + 1)
      if tasks.any (fun t => t.id == row.id) then .error (.uniqueTaskId row.id)
      else match insertTasksFrom g c rest (tasks ++ [row]) (seq + 1) with
        | .ok (ts, s, n) => .ok (ts, s, n + 1)
        | .error e => .error e

def promiseStateOk (s : Nat) : Bool := s == 2 || s == 4 || s == 8 || s == 16

def Db.createPromise (g : SqlDefs) (db : Db) (c : CreatePromiseCmd) : Db × Nat :=
  if db.promises.any (fun r => r.id == c.id) then ({ db with seqP := db.seqP + 1 }, 0)
  else ({ db with promises := db.promises ++ [g.promiseInsert_row c (db.seqP + 1)], seqP := db.seqP + 1 }, 1)

def Db.createTask (g : SqlDefs) (db : Db) (c : CreateTaskCmd) : Except StoreErr (Db × Nat) :=
  if !(c.state == 1 || c.state == 4) then .error (.assertion "state must be init or claimed")
  else if c.state == 4 && c.processId.isNone then .error (.assertion "process id must be set if state is claimed")
  else if db.tasks.any (fun r => r.id == c.id) then .ok ({ db with seqT := db.seqT + 1 }, 0)
  else .ok ({ db with tasks := db.tasks ++ [g.taskInsert_row c (db.seqT + 1)], seqT := db.seqT + 1 }, 1)

/-- one store command -/
def Db.exec (g : SqlDefs) (db : Db) : Cmd → Except StoreErr (Db × Res)
  | .readPromise c =>
      .ok (db, .promises (((db.promises.filter (g.promiseSelect_where c)).take 1).map g.promiseSelect_proj))
  | .readPromises c =>
      .ok (db, .promises ((takeLimit (g.promiseSelectAll_limit c) (db.promises.filter (g.promiseSelectAll_where c))).map g.promiseSelectAll_proj))
  | .searchPromises c =>
      if c.id == "" then .error (.assertion "query cannot be empty") else
      .ok (db, .promises ((takeLimit (g.promiseSearch_limit c) (db.promises.filter (g.promiseSearch_where c)).reverse).map g.promiseSearch_proj))
  | .createPromise c =>
      let (db', n) := db.createPromise g c
      .ok (db', .rows n)
  | .updatePromise c =>
      if !promiseStateOk c.state then .error (.assertion "state must be canceled, resolved, rejected, or timedout") else
      .ok ({ db with promises := updateWhere (g.promiseUpdate_where c) (g.promiseUpdate_set c) db.promises },
           .rows (countP (g.promiseUpdate_where c) db.promises))
  | .createCallback c =>
      if g.callbackInsert_guard c db then
        .ok ({ db with callbacks := db.callbacks ++ [g.callbackInsert_row c] }, .rows 1)
      else .ok (db, .rows 0)
  | .deleteCallbacks c =>
      .ok ({ db with callbacks := db.callbacks.filter fun r => !g.callbackDelete_where c r },
           .rows (countP (g.callbackDelete_where c) db.callbacks))
  | .readSchedule c =>
      .ok (db, .schedules (((db.schedules.filter (g.scheduleSelect_where c)).take 1).map g.scheduleSelect_proj))
  | .readSchedules c =>
      .ok (db, .schedules ((takeLimit (g.scheduleSelectAll_limit c)
              ((db.schedules.filter (g.scheduleSelectAll_where c)).mergeSort schedOrdLe)).map g.scheduleSelectAll_proj))
  | .searchSchedules c =>
      if c.id == "" then .error (.assertion "query cannot be empty") else
      .ok (db, .schedules ((takeLimit (g.scheduleSearch_limit c) (db.schedules.filter (g.scheduleSearch_where c)).reverse).map g.scheduleSearch_proj))
  | .createSchedule c =>
      if db.schedules.any (fun r => r.id == c.id) then .ok ({ db with seqS := db.seqS + 1 }, .rows 0)
      else .ok ({ db with schedules := db.schedules ++ [g.scheduleInsert_row c (db.seqS + 1)], seqS := db.seqS + 1 }, .rows 1)
  | .updateSchedule c =>
      .ok ({ db with schedules := updateWhere (g.scheduleUpdate_where c) (g.scheduleUpdate_set c) db.schedules },
           .rows (countP (g.scheduleUpdate_where c) db.schedules))
  | .deleteSchedule c =>
      .ok ({ db with schedules := db.schedules.filter fun r => !g.scheduleDelete_where c r },
           .rows (countP (g.scheduleDelete_where c) db.schedules))
  | .readTask c =>
      .ok (db, .tasks (((db.tasks.filter (g.taskSelect_where c)).take 1).map g.taskSelect_proj))
  | .readEnqueueableTasks c =>
      .ok (db, .tasks ((takeLimit (g.taskSelectEnqueueable_limit c)
              (firstPerRoot ((db.tasks.filter (g.taskSelectEnqueueable_where c db)).mergeSort taskOrdLe))).map g.taskSelectEnqueueable_proj))
  | .readTasks c =>
      if c.states.isEmpty then .error (.assertion "must provide at least one state") else
      .ok (db, .tasks ((takeLimit (g.taskSelectAll_limit c)
              ((db.tasks.filter (g.taskSelectAll_where c)).mergeSort taskOrdLe)).map g.taskSelectAll_proj))
  | .createTask c =>
      match db.createTask g c with
      | .ok (db', n) => .ok (db', .rows n)
      | .error e => .error e
  | .createTasks c =>
      match insertTasksFrom g c ((db.callbacks.filter (g.taskInsertAll_where c)).mergeSort cbOrdLe) db.tasks db.seqT with
      | .ok (ts, s, n) => .ok ({ db with tasks := ts, seqT := s }, .rows n)
      | .error e => .error e
  | .completeTasks c =>
      .ok ({ db with tasks := updateWhere (g.taskCompleteByRootId_where c) (g.taskCompleteByRootId_set c) db.tasks },
           .rows (countP (g.taskCompleteByRootId_where c) db.tasks))
  | .updateTask c =>
      if c.currentStates.isEmpty then .error (.assertion "must provide at least one current state") else
      .ok ({ db with tasks := updateWhere (g.taskUpdate_where c) (g.taskUpdate_set c) db.tasks },
           .rows (countP (g.taskUpdate_where c) db.tasks))
  | .heartbeatTasks c =>
      .ok ({ db with tasks := updateWhere (g.taskHeartbeat_where c) (g.taskHeartbeat_set c) db.tasks },
           .rows (countP (g.taskHeartbeat_where c) db.tasks))
  | .createPromiseAndTask c =>
      let (db1, n) := db.createPromise g c.promiseCommand
      if n == 0 then .ok (db1, .rows2 0 0)
      else match db1.createTask g c.taskCommand with
        | .ok (db2, m) => .ok (db2, .rows2 n m)
        | .error e => .error e
  | .readLock c =>
      .ok (db, .locks (((db.locks.filter (g.lockRead_where c)).take 1).map g.lockRead_proj))
  | .acquireLock c =>
      let x := g.lockAcquire_row c
      if db.locks.any (fun r => r.resourceId == x.resourceId) then
        .ok ({ db with locks := updateWhere (fun r => r.resourceId == x.resourceId && g.lockAcquire_conflictWhere r x)
                                  (fun r => g.lockAcquire_conflictSet r x) db.locks },
             .rows (countP (fun r => r.resourceId == x.resourceId && g.lockAcquire_conflictWhere r x) db.locks))
      else .ok ({ db with locks := db.locks ++ [x] }, .rows 1)
  | .releaseLock c =>
      .ok ({ db with locks := db.locks.filter fun r => !g.lockRelease_where c r },
           .rows (countP (g.lockRelease_where c) db.locks))
  | .heartbeatLocks c =>
      .ok ({ db with locks := updateWhere (g.lockHeartbeat_where c) (g.lockHeartbeat_set c) db.locks },
           .rows (countP (g.lockHeartbeat_where c) db.locks))
  | .timeoutLocks c =>
      .ok ({ db with locks := db.locks.filter fun r => !g.lockTimeout_where c r },
           .rows (countP (g.lockTimeout_where c) db.locks))

/-- one transaction: commands in submission order, the first error aborts -/
def Db.execTx (g : SqlDefs) (db : Db) : List Cmd → Except StoreErr (Db × List Res)
  | [] => .ok (db, [])
  | c :: cs =>
      match db.exec g c with
      | .error e => .error e
      | .ok (db1, r) =>
          match db1.execTx g cs with
          | .error e => .error e
          | .ok (db2, rs) => .ok (db2, r :: rs)

/-- the transactions of one batch, inside one SQL transaction (`Execute`) -/
def Db.execTxs (g : SqlDefs) (db : Db) : List (List Cmd) → Except StoreErr (Db × List (List Res))
  | [] => .ok (db, [])
  | tx :: txs =>
      if tx.isEmpty then .error (.assertion "expected a command") else
      match db.execTx g tx with
      | .error e => .error e
      | .ok (db1, rs) =>
          match db1.execTxs g txs with
          | .error e => .error e
          | .ok (db2, rss) => .ok (db2, rs :: rss)

/-- `store.Process`: all or nothing; on error the database is unchanged and every submission of the
    batch receives the error. -/
def Db.execBatch (g : SqlDefs) (db : Db) (txs : List (List Cmd)) : Db × Except StoreErr (List (List Res)) :=
  match db.execTxs g txs with
  | .ok (db', rss) => (db', .ok rss)
  | .error e => (db, .error e)

end Resonate
