/-
  Model/Types.lean — value, row and command types of the store model.
  Field names mirror the SQL column names (snake_case → camelCase) and the Go command
  struct fields (UpperCamel → lowerCamel) so that the generated definitions
  (Generated/Sql*.lean, emitted by translate/sql2lean.py from /repo's SQL text and handler
  argument lists) can refer to them mechanically.  Core-only: no Mathlib import.
-/
namespace Resonate

/-- Go `map[string]string` as persisted by `json.Marshal`: association list, keys sorted, unique. -/
abbrev SMap := List (String × String)

def SMap.get? (m : SMap) (k : String) : Option String :=
  match m with
  | [] => none
  | (k', v) :: rest => if k' = k then some v else SMap.get? rest k

/-- `m[k] = v` on the key-sorted representation -/
def SMap.set (m : SMap) (k v : String) : SMap :=
  match m with
  | [] => [(k, v)]
  | (k', v') :: rest =>
    if k < k' then (k, v) :: (k', v') :: rest
    else if k = k' then (k, v) :: rest
    else (k', v') :: SMap.set rest k v

/-- `message.Mesg` (stored as JSON in `callbacks.mesg` / `tasks.mesg`). -/
structure Mesg where
  type : String
  root : String
  leaf : String
deriving DecidableEq, Repr, Inhabited

/-- `promise.Value` with nil already normalised to empty (the coroutines do that before the store). -/
structure Value where
  headers : SMap := []
  data : String := ""
deriving DecidableEq, Repr, Inhabited

-- promise states (Go bit values)
def P_PENDING : Nat := 1
def P_RESOLVED : Nat := 2
def P_REJECTED : Nat := 4
def P_CANCELED : Nat := 8
def P_TIMEDOUT : Nat := 16
-- task states
def T_INIT : Nat := 1
def T_ENQUEUED : Nat := 2
def T_CLAIMED : Nat := 4
def T_COMPLETED : Nat := 8
def T_TIMEDOUT : Nat := 16

structure PromiseRow where
  id : String
  sortId : Nat
  state : Nat
  paramHeaders : SMap
  paramData : String
  valueHeaders : Option SMap
  valueData : Option String
  timeout : Int
  idempotencyKeyForCreate : Option String
  idempotencyKeyForComplete : Option String
  tags : SMap
  createdOn : Option Int
  completedOn : Option Int
deriving DecidableEq, Repr, Inhabited

structure CallbackRow where
  id : String
  promiseId : String
  rootPromiseId : String
  recv : String
  mesg : Mesg
  timeout : Int
  createdOn : Int
deriving DecidableEq, Repr, Inhabited

structure ScheduleRow where
  id : String
  sortId : Nat
  description : String
  cron : String
  tags : SMap
  promiseId : String
  promiseTimeout : Int
  promiseParamHeaders : SMap
  promiseParamData : String
  promiseTags : SMap
  lastRunTime : Option Int
  nextRunTime : Int
  idempotencyKey : Option String
  createdOn : Int
deriving DecidableEq, Repr, Inhabited

structure LockRow where
  resourceId : String
  executionId : String
  processId : String
  ttl : Int
  expiresAt : Int
deriving DecidableEq, Repr, Inhabited

structure TaskRow where
  id : String
  sortId : Nat
  processId : Option String
  state : Nat
  rootPromiseId : String
  recv : String
  mesg : Mesg
  timeout : Int
  counter : Int
  attempt : Int
  ttl : Int
  expiresAt : Int
  createdOn : Option Int
  completedOn : Option Int
deriving DecidableEq, Repr, Inhabited

/-- The whole durable state: five tables (rows in insertion = rowid order) and the three
    AUTOINCREMENT / SERIAL sequences. -/
structure Db where
  promises : List PromiseRow := []
  callbacks : List CallbackRow := []
  schedules : List ScheduleRow := []
  locks : List LockRow := []
  tasks : List TaskRow := []
  seqP : Nat := 0
  seqS : Nat := 0
  seqT : Nat := 0
deriving DecidableEq, Repr, Inhabited

/-! ### Commands (`t_aio.*Command`) -/

structure ReadPromiseCmd where
  id : String
deriving DecidableEq, Repr, Inhabited

structure ReadPromisesCmd where
  time : Int
  limit : Int
deriving DecidableEq, Repr, Inhabited

structure SearchPromisesCmd where
  id : String
  states : List Nat
  tags : SMap
  limit : Int
  sortId : Option Int
deriving DecidableEq, Repr, Inhabited

structure CreatePromiseCmd where
  id : String
  param : Value
  timeout : Int
  idempotencyKey : Option String
  tags : SMap
  createdOn : Int
deriving DecidableEq, Repr, Inhabited

structure UpdatePromiseCmd where
  id : String
  state : Nat
  value : Value
  idempotencyKey : Option String
  completedOn : Int
deriving DecidableEq, Repr, Inhabited

structure CreateCallbackCmd where
  id : String
  promiseId : String
  recv : String
  mesg : Mesg
  timeout : Int
  createdOn : Int
deriving DecidableEq, Repr, Inhabited

structure DeleteCallbacksCmd where
  promiseId : String
deriving DecidableEq, Repr, Inhabited

structure ReadScheduleCmd where
  id : String
deriving DecidableEq, Repr, Inhabited

structure ReadSchedulesCmd where
  nextRunTime : Int
  limit : Int
deriving DecidableEq, Repr, Inhabited

structure SearchSchedulesCmd where
  id : String
  tags : SMap
  limit : Int
  sortId : Option Int
deriving DecidableEq, Repr, Inhabited

structure CreateScheduleCmd where
  id : String
  description : String
  cron : String
  tags : SMap
  promiseId : String
  promiseTimeout : Int
  promiseParam : Value
  promiseTags : SMap
  nextRunTime : Int
  idempotencyKey : Option String
  createdOn : Int
deriving DecidableEq, Repr, Inhabited

structure UpdateScheduleCmd where
  id : String
  lastRunTime : Option Int
  nextRunTime : Int
deriving DecidableEq, Repr, Inhabited

structure DeleteScheduleCmd where
  id : String
deriving DecidableEq, Repr, Inhabited

structure ReadTaskCmd where
  id : String
deriving DecidableEq, Repr, Inhabited

structure ReadTasksCmd where
  states : List Nat
  time : Int
  limit : Int
deriving DecidableEq, Repr, Inhabited

structure ReadEnqueueableTasksCmd where
  time : Int
  limit : Int
deriving DecidableEq, Repr, Inhabited

structure CreateTaskCmd where
  id : String
  recv : String
  mesg : Mesg
  timeout : Int
  processId : Option String
  state : Nat
  ttl : Int
  expiresAt : Int
  createdOn : Int
deriving DecidableEq, Repr, Inhabited

structure CreateTasksCmd where
  promiseId : String
  createdOn : Int
deriving DecidableEq, Repr, Inhabited

structure CompleteTasksCmd where
  rootPromiseId : String
  completedOn : Int
deriving DecidableEq, Repr, Inhabited

structure UpdateTaskCmd where
  id : String
  processId : Option String
  state : Nat
  counter : Int
  attempt : Int
  ttl : Int
  expiresAt : Int
  completedOn : Option Int
  currentStates : List Nat
  currentCounter : Int
deriving DecidableEq, Repr, Inhabited

structure HeartbeatTasksCmd where
  processId : String
  time : Int
deriving DecidableEq, Repr, Inhabited

structure CreatePromiseAndTaskCmd where
  promiseCommand : CreatePromiseCmd
  taskCommand : CreateTaskCmd
deriving DecidableEq, Repr, Inhabited

structure ReadLockCmd where
  resourceId : String
deriving DecidableEq, Repr, Inhabited

structure AcquireLockCmd where
  resourceId : String
  processId : String
  executionId : String
  ttl : Int
  expiresAt : Int
deriving DecidableEq, Repr, Inhabited

structure ReleaseLockCmd where
  resourceId : String
  executionId : String
deriving DecidableEq, Repr, Inhabited

structure HeartbeatLocksCmd where
  processId : String
  time : Int
deriving DecidableEq, Repr, Inhabited

structure TimeoutLocksCmd where
  timeout : Int
deriving DecidableEq, Repr, Inhabited

/-- The 27 store command kinds of `t_aio/store.go`, in declaration order. -/
inductive Cmd
  | readPromise (c : ReadPromiseCmd)
  | readPromises (c : ReadPromisesCmd)
  | searchPromises (c : SearchPromisesCmd)
  | createPromise (c : CreatePromiseCmd)
  | updatePromise (c : UpdatePromiseCmd)
  | createCallback (c : CreateCallbackCmd)
  | deleteCallbacks (c : DeleteCallbacksCmd)
  | readSchedule (c : ReadScheduleCmd)
  | readSchedules (c : ReadSchedulesCmd)
  | searchSchedules (c : SearchSchedulesCmd)
  | createSchedule (c : CreateScheduleCmd)
  | updateSchedule (c : UpdateScheduleCmd)
  | deleteSchedule (c : DeleteScheduleCmd)
  | readTask (c : ReadTaskCmd)
  | readEnqueueableTasks (c : ReadEnqueueableTasksCmd)
  | readTasks (c : ReadTasksCmd)
  | createTask (c : CreateTaskCmd)
  | createTasks (c : CreateTasksCmd)
  | completeTasks (c : CompleteTasksCmd)
  | updateTask (c : UpdateTaskCmd)
  | heartbeatTasks (c : HeartbeatTasksCmd)
  | createPromiseAndTask (c : CreatePromiseAndTaskCmd)
  | readLock (c : ReadLockCmd)
  | acquireLock (c : AcquireLockCmd)
  | releaseLock (c : ReleaseLockCmd)
  | heartbeatLocks (c : HeartbeatLocksCmd)
  | timeoutLocks (c : TimeoutLocksCmd)
deriving DecidableEq, Repr, Inhabited

/-- Store results (`t_aio.Result`): query results carry the returned records (RowsReturned is
    their length, LastSortId the sort id of the last one), alter results the affected-row count. -/
inductive Res
  | promises (rows : List PromiseRow)
  | schedules (rows : List ScheduleRow)
  | tasks (rows : List TaskRow)
  | locks (rows : List LockRow)
  | rows (n : Nat)
  | rows2 (p t : Nat)
deriving DecidableEq, Repr, Inhabited

/-- Ways in which the real store fails a command (and with it the whole batch). -/
inductive StoreErr
  | uniqueTaskId (id : String)      -- TASK_INSERT_ALL hits UNIQUE(tasks.id)
  | uniqueCallbackId (id : String)  -- not reachable through CALLBACK_INSERT (NOT EXISTS guard); kept for totality
  | badJsonPath (key : String)      -- sqlite json_extract with a malformed path
  | assertion (what : String)       -- util.Assert in a handler (process panic in the real code)
  | injected                        -- failure injected by the environment
deriving DecidableEq, Repr, Inhabited

inductive Dialect | sqlite | pg
deriving DecidableEq, Repr, Inhabited

end Resonate
