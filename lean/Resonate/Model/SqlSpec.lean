/-
  Model/SqlSpec.lean — the store's guards, assignments, row constructors and projections *stated
  outright* by hand, parametric in the dialect only where the two back ends really differ
  (LIKE semantics, tag filter, the `::int` cast marker).  `Proofs/Tie*.lean` prove, definition by
  definition, that what sql2lean.py generates from /repo's SQL text today equals these; every
  property theorem is stated over `specDefs`.
-/
import Resonate.Model.Store
set_option linter.unusedVariables false
namespace Resonate.SqlSpec
open Resonate

def dLike : Dialect → String → String → Bool
  | .sqlite => sqliteLike
  | .pg => pgLike

/-- sqlite: one `json_extract(tags, '$.'||k) = v` conjunct per requested pair;
    Postgres: `($n::jsonb IS NULL OR tags @> $n)` with NULL passed for an empty request. -/
def dTagsMatch : Dialect → SMap → SMap → Bool
  | .sqlite, tags, q => sqliteTagsMatch tags q
  | .pg, tags, q => ((optJsonMap q)).isNone || (match (optJsonMap q) with | some q => jsonContains tags q | none => false)

def dSortIdArg : Dialect → Option Int → Option Int
  | .sqlite, x => x
  | .pg, x => pgInt4 x

def promiseSelect_where (c : ReadPromiseCmd) (r : PromiseRow) : Bool :=
  (r.id == c.id)
def promiseSelect_proj (r : PromiseRow) : PromiseRow :=
  { id := r.id, sortId := 0, state := r.state, paramHeaders := r.paramHeaders, paramData := r.paramData, valueHeaders := r.valueHeaders, valueData := r.valueData, timeout := r.timeout, idempotencyKeyForCreate := r.idempotencyKeyForCreate, idempotencyKeyForComplete := r.idempotencyKeyForComplete, tags := r.tags, createdOn := r.createdOn, completedOn := r.completedOn }
def promiseSelectAll_where (c : ReadPromisesCmd) (r : PromiseRow) : Bool :=
  ((r.state == 1) && (decide (r.timeout ≤ c.time)))
def promiseSelectAll_proj (r : PromiseRow) : PromiseRow :=
  { id := r.id, sortId := r.sortId, state := r.state, paramHeaders := r.paramHeaders, paramData := r.paramData, valueHeaders := r.valueHeaders, valueData := r.valueData, timeout := r.timeout, idempotencyKeyForCreate := r.idempotencyKeyForCreate, idempotencyKeyForComplete := r.idempotencyKeyForComplete, tags := r.tags, createdOn := r.createdOn, completedOn := r.completedOn }
def promiseSelectAll_limit (c : ReadPromisesCmd) : Int :=
  c.limit
def promiseSearch_where (d : Dialect) (c : SearchPromisesCmd) (r : PromiseRow) : Bool :=
  (((((dSortIdArg d c.sortId).isNone || (sqlLtO (Int.ofNat r.sortId) c.sortId)) && (dLike d r.id (starToPercent c.id))) && ((r.state &&& (maskOf c.states)) != 0)) && (dTagsMatch d r.tags c.tags))
def promiseSearch_proj (r : PromiseRow) : PromiseRow :=
  { id := r.id, sortId := r.sortId, state := r.state, paramHeaders := r.paramHeaders, paramData := r.paramData, valueHeaders := r.valueHeaders, valueData := r.valueData, timeout := r.timeout, idempotencyKeyForCreate := r.idempotencyKeyForCreate, idempotencyKeyForComplete := r.idempotencyKeyForComplete, tags := r.tags, createdOn := r.createdOn, completedOn := r.completedOn }
def promiseSearch_limit (c : SearchPromisesCmd) : Int :=
  c.limit
def promiseInsert_row (c : CreatePromiseCmd) (sortId : Nat) : PromiseRow :=
  { id := c.id, sortId := sortId, state := 1, paramHeaders := c.param.headers, paramData := c.param.data, valueHeaders := none, valueData := none, timeout := c.timeout, idempotencyKeyForCreate := c.idempotencyKey, idempotencyKeyForComplete := none, tags := c.tags, createdOn := (some c.createdOn), completedOn := none }
def promiseUpdate_where (c : UpdatePromiseCmd) (r : PromiseRow) : Bool :=
  ((r.id == c.id) && (r.state == 1))
def promiseUpdate_set (c : UpdatePromiseCmd) (r : PromiseRow) : PromiseRow :=
  { r with state := c.state, valueHeaders := (some c.value.headers), valueData := (some c.value.data), idempotencyKeyForComplete := c.idempotencyKey, completedOn := (some c.completedOn) }
def callbackInsert_row (c : CreateCallbackCmd) : CallbackRow :=
  { id := c.id, promiseId := c.promiseId, rootPromiseId := c.mesg.root, recv := c.recv, mesg := c.mesg, timeout := c.timeout, createdOn := c.createdOn }
def callbackInsert_guard (c : CreateCallbackCmd) (db : Db) : Bool :=
  ((db.promises.any fun r1 => ((r1.id == c.promiseId) && (r1.state == 1))) && (!(db.callbacks.any fun r1 => (r1.id == c.id))))
def callbackDelete_where (c : DeleteCallbacksCmd) (r : CallbackRow) : Bool :=
  (r.promiseId == c.promiseId)
def scheduleSelect_where (c : ReadScheduleCmd) (r : ScheduleRow) : Bool :=
  (r.id == c.id)
def scheduleSelect_proj (r : ScheduleRow) : ScheduleRow :=
  { id := r.id, sortId := 0, description := r.description, cron := r.cron, tags := r.tags, promiseId := r.promiseId, promiseTimeout := r.promiseTimeout, promiseParamHeaders := r.promiseParamHeaders, promiseParamData := r.promiseParamData, promiseTags := r.promiseTags, lastRunTime := r.lastRunTime, nextRunTime := r.nextRunTime, idempotencyKey := r.idempotencyKey, createdOn := r.createdOn }
def scheduleSelectAll_where (c : ReadSchedulesCmd) (r : ScheduleRow) : Bool :=
  (decide (r.nextRunTime ≤ c.nextRunTime))
def scheduleSelectAll_proj (r : ScheduleRow) : ScheduleRow :=
  { id := r.id, sortId := 0, description := "", cron := r.cron, tags := [], promiseId := r.promiseId, promiseTimeout := r.promiseTimeout, promiseParamHeaders := r.promiseParamHeaders, promiseParamData := r.promiseParamData, promiseTags := r.promiseTags, lastRunTime := r.lastRunTime, nextRunTime := r.nextRunTime, idempotencyKey := none, createdOn := 0 }
def scheduleSelectAll_limit (c : ReadSchedulesCmd) : Int :=
  c.limit
def scheduleSearch_where (d : Dialect) (c : SearchSchedulesCmd) (r : ScheduleRow) : Bool :=
  ((((dSortIdArg d c.sortId).isNone || (sqlLtO (Int.ofNat r.sortId) c.sortId)) && (dLike d r.id (starToPercent c.id))) && (dTagsMatch d r.tags c.tags))
def scheduleSearch_proj (r : ScheduleRow) : ScheduleRow :=
  { id := r.id, sortId := r.sortId, description := "", cron := r.cron, tags := r.tags, promiseId := "", promiseTimeout := 0, promiseParamHeaders := [], promiseParamData := "", promiseTags := [], lastRunTime := r.lastRunTime, nextRunTime := r.nextRunTime, idempotencyKey := r.idempotencyKey, createdOn := r.createdOn }
def scheduleSearch_limit (c : SearchSchedulesCmd) : Int :=
  c.limit
def scheduleInsert_row (c : CreateScheduleCmd) (sortId : Nat) : ScheduleRow :=
  { id := c.id, sortId := sortId, description := c.description, cron := c.cron, tags := c.tags, promiseId := c.promiseId, promiseTimeout := c.promiseTimeout, promiseParamHeaders := c.promiseParam.headers, promiseParamData := c.promiseParam.data, promiseTags := c.promiseTags, lastRunTime := none, nextRunTime := c.nextRunTime, idempotencyKey := c.idempotencyKey, createdOn := c.createdOn }
def scheduleUpdate_where (c : UpdateScheduleCmd) (r : ScheduleRow) : Bool :=
  ((r.id == c.id) && (sqlEqO (some r.nextRunTime) c.lastRunTime))
def scheduleUpdate_set (c : UpdateScheduleCmd) (r : ScheduleRow) : ScheduleRow :=
  { r with lastRunTime := (some r.nextRunTime), nextRunTime := c.nextRunTime }
def scheduleDelete_where (c : DeleteScheduleCmd) (r : ScheduleRow) : Bool :=
  (r.id == c.id)
def lockRead_where (c : ReadLockCmd) (r : LockRow) : Bool :=
  (r.resourceId == c.resourceId)
def lockRead_proj (r : LockRow) : LockRow :=
  { resourceId := r.resourceId, executionId := r.executionId, processId := r.processId, ttl := r.ttl, expiresAt := r.expiresAt }
def lockAcquire_row (c : AcquireLockCmd) : LockRow :=
  { resourceId := c.resourceId, executionId := c.executionId, processId := c.processId, ttl := c.ttl, expiresAt := c.expiresAt }
def lockAcquire_conflictWhere (r x : LockRow) : Bool :=
  (r.executionId == x.executionId)
def lockAcquire_conflictSet (r x : LockRow) : LockRow :=
  { r with processId := x.processId, ttl := x.ttl, expiresAt := x.expiresAt }
def lockRelease_where (c : ReleaseLockCmd) (r : LockRow) : Bool :=
  ((r.resourceId == c.resourceId) && (r.executionId == c.executionId))
def lockHeartbeat_where (c : HeartbeatLocksCmd) (r : LockRow) : Bool :=
  (r.processId == c.processId)
def lockHeartbeat_set (c : HeartbeatLocksCmd) (r : LockRow) : LockRow :=
  { r with expiresAt := (c.time + r.ttl) }
def lockTimeout_where (c : TimeoutLocksCmd) (r : LockRow) : Bool :=
  (decide (r.expiresAt ≤ c.timeout))
def taskSelect_where (c : ReadTaskCmd) (r : TaskRow) : Bool :=
  (r.id == c.id)
def taskSelect_proj (r : TaskRow) : TaskRow :=
  { id := r.id, sortId := 0, processId := r.processId, state := r.state, rootPromiseId := r.rootPromiseId, recv := r.recv, mesg := r.mesg, timeout := r.timeout, counter := r.counter, attempt := r.attempt, ttl := r.ttl, expiresAt := r.expiresAt, createdOn := r.createdOn, completedOn := r.completedOn }
def taskSelectAll_where (c : ReadTasksCmd) (r : TaskRow) : Bool :=
  (((r.state &&& (maskOf c.states)) != 0) && ((decide (r.expiresAt ≤ c.time)) || (decide (r.timeout ≤ c.time))))
def taskSelectAll_proj (r : TaskRow) : TaskRow :=
  { id := r.id, sortId := 0, processId := r.processId, state := r.state, rootPromiseId := r.rootPromiseId, recv := r.recv, mesg := r.mesg, timeout := r.timeout, counter := r.counter, attempt := r.attempt, ttl := r.ttl, expiresAt := r.expiresAt, createdOn := r.createdOn, completedOn := r.completedOn }
def taskSelectAll_limit (c : ReadTasksCmd) : Int :=
  c.limit
def taskSelectEnqueueable_where (c : ReadEnqueueableTasksCmd) (db : Db) (r : TaskRow) : Bool :=
  ((r.state == 1) && (!(db.tasks.any fun r2 => ((r2.rootPromiseId == r.rootPromiseId) && (r2.state == 2 || r2.state == 4)))))
def taskSelectEnqueueable_proj (r : TaskRow) : TaskRow :=
  { id := r.id, sortId := 0, processId := r.processId, state := r.state, rootPromiseId := r.rootPromiseId, recv := r.recv, mesg := r.mesg, timeout := r.timeout, counter := r.counter, attempt := r.attempt, ttl := r.ttl, expiresAt := r.expiresAt, createdOn := r.createdOn, completedOn := r.completedOn }
def taskSelectEnqueueable_limit (c : ReadEnqueueableTasksCmd) : Int :=
  c.limit
def taskInsert_row (c : CreateTaskCmd) (sortId : Nat) : TaskRow :=
  { id := c.id, sortId := sortId, processId := c.processId, state := c.state, rootPromiseId := c.mesg.root, recv := c.recv, mesg := c.mesg, timeout := c.timeout, counter := 1, attempt := 0, ttl := c.ttl, expiresAt := c.expiresAt, createdOn := (some c.createdOn), completedOn := none }
def taskInsertAll_row (c : CreateTasksCmd) (s : CallbackRow) (sortId : Nat) : TaskRow :=
  { id := s.id, sortId := sortId, processId := none, state := 1, rootPromiseId := s.rootPromiseId, recv := s.recv, mesg := s.mesg, timeout := s.timeout, counter := 1, attempt := 0, ttl := 0, expiresAt := 0, createdOn := (some c.createdOn), completedOn := none }
def taskInsertAll_where (c : CreateTasksCmd) (s : CallbackRow) : Bool :=
  (s.promiseId == c.promiseId)
def taskUpdate_where (c : UpdateTaskCmd) (r : TaskRow) : Bool :=
  (((r.id == c.id) && ((r.state &&& (maskOf c.currentStates)) != 0)) && (r.counter == c.currentCounter))
def taskUpdate_set (c : UpdateTaskCmd) (r : TaskRow) : TaskRow :=
  { r with processId := c.processId, state := c.state, counter := c.counter, attempt := c.attempt, ttl := c.ttl, expiresAt := c.expiresAt, completedOn := c.completedOn }
def taskCompleteByRootId_where (c : CompleteTasksCmd) (r : TaskRow) : Bool :=
  ((r.rootPromiseId == c.rootPromiseId) && (r.state == 1 || r.state == 2 || r.state == 4))
def taskCompleteByRootId_set (c : CompleteTasksCmd) (r : TaskRow) : TaskRow :=
  { r with state := 8, completedOn := (some c.completedOn) }
def taskHeartbeat_where (c : HeartbeatTasksCmd) (r : TaskRow) : Bool :=
  ((sqlEqO r.processId (some c.processId)) && (r.state == 4))
def taskHeartbeat_set (c : HeartbeatTasksCmd) (r : TaskRow) : TaskRow :=
  { r with expiresAt := (c.time + r.ttl) }

def defs (d : Dialect) : SqlDefs := {
  promiseSelect_where := promiseSelect_where,
  promiseSelect_proj := promiseSelect_proj,
  promiseSelectAll_where := promiseSelectAll_where,
  promiseSelectAll_proj := promiseSelectAll_proj,
  promiseSelectAll_limit := promiseSelectAll_limit,
  promiseSearch_where := promiseSearch_where d,
  promiseSearch_proj := promiseSearch_proj,
  promiseSearch_limit := promiseSearch_limit,
  promiseInsert_row := promiseInsert_row,
  promiseUpdate_where := promiseUpdate_where,
  promiseUpdate_set := promiseUpdate_set,
  callbackInsert_row := callbackInsert_row,
  callbackInsert_guard := callbackInsert_guard,
  callbackDelete_where := callbackDelete_where,
  scheduleSelect_where := scheduleSelect_where,
  scheduleSelect_proj := scheduleSelect_proj,
  scheduleSelectAll_where := scheduleSelectAll_where,
  scheduleSelectAll_proj := scheduleSelectAll_proj,
  scheduleSelectAll_limit := scheduleSelectAll_limit,
  scheduleSearch_where := scheduleSearch_where d,
  scheduleSearch_proj := scheduleSearch_proj,
  scheduleSearch_limit := scheduleSearch_limit,
  scheduleInsert_row := scheduleInsert_row,
  scheduleUpdate_where := scheduleUpdate_where,
  scheduleUpdate_set := scheduleUpdate_set,
  scheduleDelete_where := scheduleDelete_where,
  lockRead_where := lockRead_where,
  lockRead_proj := lockRead_proj,
  lockAcquire_row := lockAcquire_row,
  lockAcquire_conflictWhere := lockAcquire_conflictWhere,
  lockAcquire_conflictSet := lockAcquire_conflictSet,
  lockRelease_where := lockRelease_where,
  lockHeartbeat_where := lockHeartbeat_where,
  lockHeartbeat_set := lockHeartbeat_set,
  lockTimeout_where := lockTimeout_where,
  taskSelect_where := taskSelect_where,
  taskSelect_proj := taskSelect_proj,
  taskSelectAll_where := taskSelectAll_where,
  taskSelectAll_proj := taskSelectAll_proj,
  taskSelectAll_limit := taskSelectAll_limit,
  taskSelectEnqueueable_where := taskSelectEnqueueable_where,
  taskSelectEnqueueable_proj := taskSelectEnqueueable_proj,
  taskSelectEnqueueable_limit := taskSelectEnqueueable_limit,
  taskInsert_row := taskInsert_row,
  taskInsertAll_row := taskInsertAll_row,
  taskInsertAll_where := taskInsertAll_where,
  taskUpdate_where := taskUpdate_where,
  taskUpdate_set := taskUpdate_set,
  taskCompleteByRootId_where := taskCompleteByRootId_where,
  taskCompleteByRootId_set := taskCompleteByRootId_set,
  taskHeartbeat_where := taskHeartbeat_where,
  taskHeartbeat_set := taskHeartbeat_set,
  shape := match d with | .sqlite => expectedShapeSqlite | .pg => expectedShapePg,
  wiring := expectedWiring,
  uniques := match d with | .sqlite => expectedUniquesSqlite | .pg => expectedUniquesPg
}

end Resonate.SqlSpec
