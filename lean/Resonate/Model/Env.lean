/-
  Model/Env.lean — executable models of the two pure helpers the coroutines call:
  `util.Next` (robfig/cron) for the grid expressions the harness uses, and `generatePromiseId`
  (Go template over {"id","timestamp"}).  Theorems never unfold these: they are stated over an
  arbitrary `Env` under explicit hypotheses (`IsNext`, …); the driver uses these definitions, and
  `sysdiff` validates them against the real library on every value a run needs.
-/
import Resonate.Model.Co
namespace Resonate

/-- period in ms of the cron expressions that fire on a fixed grid aligned to the epoch -/
def cronGrid : String → Option Int
  | "* * * * * *" => some 1000
  | "*/2 * * * * *" => some 2000
  | "*/5 * * * * *" => some 5000
  | "*/30 * * * * *" => some 30000
  | "* * * * *" => some 60000
  | "0 * * * * *" => some 60000
  | _ => none

/-- least grid point strictly after `t` (for `t ≥ 0`) -/
def cronNextModel (cron : String) (t : Int) : Option Int :=
  match cronGrid cron with
  | some p => some ((t / p + 1) * p)
  | none => none

/-- text/template semantics of substitution (after the fix of finding F4: no HTML escaping) -/
def tmplSubst (id : String) (ts : Int) : List Char → Option (List Char)
  | [] => some []
  | '{' :: '{' :: rest =>
    let idTok := ".id}}".toList
    let tsTok := ".timestamp}}".toList
    if idTok.isPrefixOf rest then (tmplSubst id ts (rest.drop idTok.length)).map (id.toList ++ ·)
    else if tsTok.isPrefixOf rest then (tmplSubst id ts (rest.drop tsTok.length)).map ((toString ts).toList ++ ·)
    else none
  | c :: rest => (tmplSubst id ts rest).map (c :: ·)
termination_by l => l.length
decreasing_by
  all_goals simp_wf
  all_goals (try simp [List.length_drop]) <;> omega

/-- `generatePromiseId`; `none` = the template does not parse (outside the modelled subset) -/
def genIdModel (tmpl id : String) (ts : Int) : Option String :=
  (tmplSubst id ts tmpl.toList).map String.ofList

def defaultEnv (cfg : Config) : Env := { cfg := cfg, cronNext := cronNextModel, genId := genIdModel }

end Resonate
