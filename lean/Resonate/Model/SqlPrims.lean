/-
  Model/SqlPrims.lean — hand-written semantics of the SQL primitives the generated
  definitions refer to (bit masks, LIKE, JSON tag filters, NULL-aware comparison, LIMIT).
  Trusted base: these definitions are the model of sqlite / Postgres expression semantics;
  they are validated against the real sqlite by the storediff correspondence harness.
-/
import Resonate.Model.Types
namespace Resonate

def maskOf (l : List Nat) : Nat := l.foldl (· ||| ·) 0

/-- `strings.ReplaceAll(id, "*", "%")` -/
def starToPercent (s : String) : String := String.ofList (s.toList.map fun c => if c = '*' then '%' else c)

/-- ASCII lower-casing, as sqlite's built-in LIKE does (non-ASCII is compared exactly). -/
def asciiLower (c : Char) : Char := if 'A' ≤ c ∧ c ≤ 'Z' then Char.ofNat (c.toNat + 32) else c

/-- LIKE matcher over char lists: `%` any sequence, `_` any single char; `ci` = ASCII case-insensitive;
    `esc` = backslash escapes the next pattern char (Postgres default). -/
def likeGo (ci esc : Bool) : List Char → List Char → Bool
  | [], s => s.isEmpty
  | '%' :: p, s => likeGo ci esc p s || (match s with | [] => false | _ :: s' => likeGo ci esc ('%' :: p) s')
  | '_' :: p, s => (match s with | [] => false | _ :: s' => likeGo ci esc p s')
  | '\\' :: p, s =>
      if esc then
        match p, s with
        | c :: p', d :: s' => (c == d) && likeGo ci esc p' s'
        | _, _ => false
      else
        match s with
        | d :: s' => ('\\' == d) && likeGo ci esc p s'
        | [] => false
  | c :: p, s =>
      match s with
      | d :: s' => (if ci then asciiLower c == asciiLower d else c == d) && likeGo ci esc p s'
      | [] => false
termination_by p s => p.length + s.length

/-- sqlite: `s LIKE pat` (ASCII case-insensitive, no escape character). -/
def sqliteLike (s pat : String) : Bool := likeGo true false pat.toList s.toList
/-- Postgres: `s LIKE pat` (case-sensitive, backslash escape). -/
def pgLike (s pat : String) : Bool := likeGo false true pat.toList s.toList

/-- A tag key that is a plain JSON-path label for sqlite's `'$.' || key`. -/
def plainKeyChar (c : Char) : Bool := !(c == '.' || c == '[' || c == ']' || c == '"' || c == '\\' || c == '$')
def PlainKey (k : String) : Bool := !k.isEmpty && k.toList.all plainKeyChar

/-- sqlite `json_extract(tags, '$.' || k)` on a flat string map: the value for a plain key;
    a key containing `.` is read as a nested path and yields NULL (finding F14). -/
def sqliteJsonExtract (tags : SMap) (k : String) : Option String :=
  if PlainKey k then tags.get? k else none

/-- sqlite tag filter built by `searchPromises`/`searchSchedules`:
    `AND json_extract(tags, ?) = ?` for every requested pair. -/
def sqliteTagsMatch (tags q : SMap) : Bool :=
  q.all fun kv => sqliteJsonExtract tags kv.1 == some kv.2

/-- Postgres `tags @> q` on flat string maps. -/
def jsonContains (tags q : SMap) : Bool :=
  q.all fun kv => tags.get? kv.1 == some kv.2

/-- Postgres handlers pass `nil` when no tags are requested, else the marshalled map. -/
def optJsonMap (m : SMap) : Option SMap := if m.isEmpty then none else some m

/-- `LIMIT n`: sqlite treats a negative limit as "no limit". -/
def takeLimit {α} (n : Int) (l : List α) : List α := if n < 0 then l else l.take n.toNat

/-- SQL `a = b` where either side may be NULL (NULL never equals anything). -/
def sqlEqO {α} [BEq α] (a b : Option α) : Bool :=
  match a, b with
  | some x, some y => x == y
  | _, _ => false

/-- SQL `a < b` where `b` may be NULL. -/
def sqlLtO (a : Int) (b : Option Int) : Bool :=
  match b with
  | some y => decide (a < y)
  | none => false

/-- marker for a Postgres `::int` cast (32-bit in Postgres; identity in the model, see DESIGN §9). -/
def pgInt4 {α} (x : α) : α := x

end Resonate
