/-
  Driver/Main.lean — line-protocol driver: one JSON object per input line, one per output line.
    {"op":"reset"}                                   → {"ok":true}
    {"op":"batch","dialect":"sqlite"|"pg","txs":[[cmd…]…]} → {"err":null|string,"results":[[res…]…],"db":{…}}
-/
import Resonate.Driver.Codec
import Resonate.Generated.Sql
open Lean
namespace Resonate

structure DriverState where
  db : Db := {}

def defsOf (d : String) : SqlDefs := if d == "pg" then Gen.Pg.defs else Gen.Sqlite.defs

def handleLine (st : DriverState) (line : String) : DriverState × Json :=
  match Json.parse line with
  | .error e => (st, Json.mkObj [("fatal", s!"parse: {e}")])
  | .ok j =>
    match j.getObjValAs? String "op" with
    | .error e => (st, Json.mkObj [("fatal", s!"op: {e}")])
    | .ok "reset" => ({ db := {} }, Json.mkObj [("ok", true)])
    | .ok "batch" =>
      let dialect := (j.getObjValAs? String "dialect").toOption.getD "sqlite"
      match (do
          let txsJ ← j.getObjValAs? (Array (Array Json)) "txs"
          txsJ.toList.mapM fun tx => tx.toList.mapM cmdFromJson : Except String (List (List Cmd))) with
      | .error e => (st, Json.mkObj [("fatal", s!"txs: {e}")])
      | .ok txs =>
        let (db', r) := st.db.execBatch (defsOf dialect) txs
        let out := match r with
          | .ok rss => Json.mkObj [("err", Json.null), ("results", toJson (rss.map fun rs => rs.map resToJson)), ("db", toJson db')]
          | .error e => Json.mkObj [("err", storeErrToString e), ("results", Json.arr #[]), ("db", toJson db')]
        ({ db := db' }, out)
    | .ok op => (st, Json.mkObj [("fatal", s!"unknown op {op}")])

partial def loop (h : IO.FS.Stream) (out : IO.FS.Stream) (st : DriverState) : IO Unit := do
  let line ← h.getLine
  if line.isEmpty then return ()
  let (st', j) := handleLine st line
  out.putStrLn j.compress
  out.flush
  loop h out st'

end Resonate

def main : IO Unit := do
  Resonate.loop (← IO.getStdin) (← IO.getStdout) {}
