/-
  Driver/Main.lean — line-protocol driver: one JSON object per input line, one per output line.
    {"op":"reset"}                                   → {"ok":true}
    {"op":"batch","dialect":"sqlite"|"pg","txs":[[cmd…]…]} → {"err":null|string,"results":[[res…]…],"db":{…}}
-/
import Resonate.Driver.Codec
import Resonate.Generated.Sql
import Resonate.Proofs.Wf
import Resonate.Model.Json
import Resonate.Model.Poll
import Resonate.Model.Resolve
import Resonate.Properties.C13
import Resonate.Properties.C02
open Lean
namespace Resonate

structure DriverState where
  db : Db := {}
  sys : Option Sys := none
  poll : Poll.St := { max := 0 }
  /-- history for the linearizability check (C02): database snapshots oldest first, tick times, per request
      (request, index of the snapshot current at submission, number of ticks seen then, start tick), router answers -/
  snaps : List Db := []
  ticks : List Int := []
  subs : List (String × Req × Nat × Nat) := []
  started : List (String × Int) := []
  routes : List (String × Cpl) := []
  /-- the clock of the last tick (hypothesis `C13.StepOkV` of the no-assertion theorem is evaluated at every step) -/
  clk : Int := 0

/-- C02: every answer the SEQUENTIAL server (`C02.seqRun`: the same coroutine served alone) can give to request `tid` at
    some instant of its window — database snapshots from its submission on × start ticks × ticks — as JSON (claim
    responses without the attached promises), without duplicates; `none` when the request is unknown -/
def linCandidates (st : DriverState) (sys : Sys) (tid : String) : Option (List Json) :=
  match st.subs.find? (fun x => x.1 == tid) with
  | none => none
  | some (_, rq, snapIdx, tickIdx) =>
    let t0s : List Int := match st.started.find? (fun x => x.1 == tid) with
      | some (_, t0) => [t0]
      | none => st.ticks.drop tickIdx
    let route : Promise → Cpl := fun _ => match st.routes.find? (fun x => x.1 == tid) with
      | some (_, c) => c
      | none => .err
    let window := st.snaps.drop snapIdx
    let times := st.ticks.drop tickIdx
    let strip : Resp → Resp
      | .claim s tk _ _ rh lh => .claim s tk none none rh lh
      | x => x
    let all : List String := window.flatMap fun db => t0s.flatMap fun t0 => times.filterMap fun t =>
      match (C02.seqRun sys.g route (rq.body sys.env t0) t 12 db ((rq.body sys.env t0) t)).2 with
      | some r' => some (respToJson (strip r')).compress
      | none => none
    some (all.eraseDups.filterMap fun s => (Json.parse s).toOption)

def defsOf (d : String) : SqlDefs := if d == "pg" then Gen.Pg.defs else Gen.Sqlite.defs

def handleLine (st : DriverState) (line : String) : DriverState × Json :=
  match Json.parse line with
  | .error e => (st, Json.mkObj [("fatal", s!"parse: {e}")])
  | .ok j =>
    match j.getObjValAs? String "op" with
    | .error e => (st, Json.mkObj [("fatal", s!"op: {e}")])
    | .ok "reset" => ({ db := {} }, Json.mkObj [("ok", true)])
    | .ok "json_enc" =>
      match j.getObjValAs? (Array (String × String)) "pairs" with
      | .error e => (st, Json.mkObj [("fatal", s!"pairs: {e}")])
      | .ok ps => (st, Json.mkObj [("text", String.ofList (Resonate.Json.encMap (ps.toList.map fun kv => (kv.1.toList, kv.2.toList))))])
    | .ok "json_dec" =>
      match j.getObjValAs? String "text" with
      | .error e => (st, Json.mkObj [("fatal", s!"text: {e}")])
      | .ok t =>
        match Resonate.Json.decMap t.toList with
        | some l => (st, Json.mkObj [("pairs", toJson (l.map fun kv => (String.ofList kv.1, String.ofList kv.2)))])
        | none => (st, Json.mkObj [("pairs", Json.null)])
    | .ok "sys_init" =>
      match (do
          let cfg ← j.getObjValAs? Config "cfg"
          let dialect := (j.getObjValAs? String "dialect").toOption.getD "sqlite"
          let bg := (j.getObjValAs? Bool "bg").toOption.getD true
          return ({ env := defaultEnv cfg, g := defsOf dialect, bgEnabled := bg } : Sys) : Except String Sys) with
      | .error e => (st, Json.mkObj [("fatal", s!"sys_init: {e}")])
      | .ok sys => ({ st with sys := some sys, snaps := [sys.db], ticks := [], subs := [], started := [], routes := [], clk := 0 }, Json.mkObj [("ok", true)])
    | .ok "submit" | .ok "tick" | .ok "exec" | .ok "complete" | .ok "crash" | .ok "shutdown" =>
      match st.sys with
      | none => (st, Json.mkObj [("fatal", "no system")])
      | some sys =>
        let op := (j.getObjValAs? String "op").toOption.getD ""
        match (do
            match op with
            | "submit" =>
              let tid ← j.getObjValAs? String "tid"
              let r ← reqFromJson (← j.getObjVal? "req")
              return Choice.submit tid r
            | "tick" => return Choice.tick (← j.getObjValAs? Int "t")
            | "exec" =>
              let items ← j.getObjValAs? (Array Json) "items"
              let its ← items.toList.mapM fun it => do
                let tid ← it.getObjValAs? String "tid"
                let seq ← it.getObjValAs? Nat "seq"
                let mode := (it.getObjValAs? String "mode").toOption.getD "ok"
                return (({ tid := tid, seq := seq } : SubId), failModeFromString mode)
              return Choice.execStore its
            | "complete" =>
              let tid ← j.getObjValAs? String "tid"
              let seq ← j.getObjValAs? Nat "seq"
              let c ← cplFromJson (← j.getObjVal? "cpl")
              return Choice.complete { tid := tid, seq := seq } c
            | "crash" => return Choice.crash
            | _ => return Choice.shutdown : Except String Choice) with
        | .error e => (st, Json.mkObj [("fatal", s!"{op}: {e}")])
        | .ok (.execStore items) =>
          let (sys', err) := sys.execStore items
          -- every database state the batch passed through (after each of its transactions) is an instant of the history
          let txs := C06.txsOf sys items
          let mids : List Db := if err.isSome then [] else
            (List.range txs.length).filterMap fun k =>
              match sys.db.execTxs sys.g (txs.take (k + 1)) with
              | .ok (dbk, _) => some dbk
              | .error _ => none
          ({ st with sys := some sys', snaps := st.snaps ++ mids ++ [sys'.db] }, Json.mkObj [("err", match err with | some e => Json.str (storeErrToString e) | none => Json.null), ("db", toJson sys'.db)])
        | .ok ch =>
          let (sys', evs) := sys.step ch
          -- the hypothesis of C13.server_never_asserts, evaluated on this step of this run
          let hyp : Bool := decide (C13.StepOkV st.clk sys ch)
          let st := { st with clk := clkAfter st.clk ch }
          -- history bookkeeping
          let st1 : DriverState := match ch with
            | .submit tid r => { st with subs := (tid, r, st.snaps.length - 1, st.ticks.length) :: st.subs }
            | .tick t =>
              let fresh := sys'.threads.filter fun th => th.isBg.isNone && !(st.started.any fun x => x.1 == th.tid)
              { st with ticks := st.ticks ++ [t], started := fresh.map (fun th => (th.tid, t)) ++ st.started }
            | .complete id c => { st with routes := (id.tid, c) :: st.routes }
            | .crash => { st with subs := [], started := [], routes := [] }
            | _ => st
          -- C02: every answer is the sequential server's answer on some database of the request's window
          let linBad : List String := evs.filterMap fun e =>
            match e with
            | .respond tid r =>
              match st1.subs.find? (fun x => x.1 == tid) with
              | none => none
              | some (_, rq, snapIdx, tickIdx) =>
                match r with
                | .error _ => none          -- platform errors (queue full, store failure) are not answers of the specification
                | _ =>
                  let t0s : List Int := match st1.started.find? (fun x => x.1 == tid) with
                    | some (_, t0) => [t0]
                    | none => st1.ticks.drop tickIdx
                  let route : Promise → Cpl := fun _ => match st1.routes.find? (fun x => x.1 == tid) with
                    | some (_, c) => c
                    | none => .err
                  let window := st1.snaps.drop snapIdx
                  let times := st1.ticks.drop tickIdx
                  -- a claim reads the attached promises in a LATER transaction than the claim itself: status, task and links are
                  -- compared at the linearization instant, each attached promise must be a state that promise had inside the window
                  let strip : Resp → Resp
                    | .claim s tk _ _ rh lh => .claim s tk none none rh lh
                    | x => x
                  let want := respToJson (strip r)
                  let ok := window.any fun db => t0s.any fun t0 => times.any fun t =>
                    match (C02.seqRun sys.g route (rq.body sys.env t0) t 12 db ((rq.body sys.env t0) t)).2 with
                    | some r' => respToJson (strip r') == want
                    | none => false
                  let attachedOk : Option Promise → Bool
                    | none => true
                    | some p => window.any fun db => db.promises.any fun row => toJson (SqlSpec.promiseSelect_proj row).toPromise == toJson p
                  let okAttached := match r with
                    | .claim _ _ rp lp _ _ => attachedOk rp && attachedOk lp
                    | _ => true
                  if ok && okAttached then none else some tid
            | _ => none
          ({ st1 with sys := some sys' },
           Json.mkObj [("events", toJson (evs.map eventToJson)), ("halted", toJson sys'.halted), ("lin_violation", toJson linBad),
                       ("wf_violation", toJson (evs.filterMap fun e => match e with
                          | .dispatch id (.store tx) => if wfTx tx then none else some (id.tid ++ "#" ++ toString id.seq)
                          | _ => none)),
                       ("threads", toJson (sys'.threads.map (·.tid))), ("apiQ", toJson sys'.apiQ.length), ("hyp", hyp)])
    | .ok "lin_candidates" =>
      match st.sys, j.getObjValAs? String "tid" with
      | some sys, .ok tid =>
        match linCandidates st sys tid with
        | some cs => (st, Json.mkObj [("found", true), ("candidates", Json.arr cs.toArray)])
        | none => (st, Json.mkObj [("found", false)])
      | _, _ => (st, Json.mkObj [("found", false)])
    | .ok "batch" =>
      let dialect := (j.getObjValAs? String "dialect").toOption.getD "sqlite"
      match (do
          let txsJ ← j.getObjValAs? (Array (Array Json)) "txs"
          txsJ.toList.mapM fun tx => tx.toList.mapM cmdFromJson : Except String (List (List Cmd))) with
      | .error e => (st, Json.mkObj [("fatal", s!"txs: {e}")])
      | .ok txs =>
        let (db', r) := st.db.execBatch (defsOf dialect) txs
        let out := match r with
          | .ok rss => Json.mkObj [("err", Json.null), ("results", toJson (rss.map fun rs => rs.map resToJson)), ("db", toJson db')]
          | .error e => Json.mkObj [("err", storeErrToString e), ("results", Json.arr #[]), ("db", toJson db')]
        ({ db := db' }, out)
    | .ok "valid_req" =>
      match (do reqFromJson (← j.getObjVal? "req") : Except String Req) with
      | .error e => (st, Json.mkObj [("fatal", s!"req: {e}")])
      | .ok r => (st, Json.mkObj [("valid", decide (C13.ValidReq r))])
    | .ok "route_tag" =>
      let tag : Option (List Char) := (j.getObjValAs? String "tag").toOption.map String.toList
      match Resolve.routeTag tag with
      | none => (st, Json.mkObj [("matched", false)])
      | some a =>
        let aj := match a with
          | .logical n => Json.mkObj [("k", "logical"), ("name", String.ofList n)]
          | .physical t d => Json.mkObj [("k", "physical"), ("type", String.ofList t), ("data", match d with | some r => Json.str (String.ofList r) | none => Json.null)]
        (st, Json.mkObj [("matched", true), ("address", aj), ("recv", String.ofList (Resolve.recvBytes a))])
    | .ok "dispatch" =>
      let recv := (j.getObjValAs? String "recv").toOption.getD ""
      let plugins := (j.getObjValAs? (List String) "plugins").toOption.getD []
      let targets : List Resolve.Target := match j.getObjVal? "targets" with
        | .ok (.arr ts) => ts.toList.filterMap fun t => do
            let n ← (t.getObjValAs? String "name").toOption
            let ty ← (t.getObjValAs? String "type").toOption
            let d ← (t.getObjValAs? String "data").toOption
            pure { name := n, type := ty, data := d }
        | _ => []
      let parsed : Option Resolve.Url := match j.getObjVal? "parsed" with
        | .ok p => do
            let sc ← (p.getObjValAs? String "scheme").toOption
            let h ← (p.getObjValAs? String "host").toOption
            let pa ← (p.getObjValAs? String "path").toOption
            let s ← (p.getObjValAs? String "str").toOption
            pure { scheme := sc, host := h, path := pa, str := s }
        | _ => none
      let o := Resolve.dispatch (Resolve.effectiveTargets targets) plugins (fun _ => parsed) recv.toList
      let stored := match Resolve.readStored recv.toList with
        | .logical n => Json.mkObj [("k", "logical"), ("name", String.ofList n)]
        | .physical t d => Json.mkObj [("k", "physical"), ("type", String.ofList t), ("data", match d with | some r => Json.str (String.ofList r) | none => Json.null)]
        | .neither => Json.mkObj [("k", "neither")]
        | .invalid => Json.mkObj [("k", "invalid")]
      let oj := match o with
        | .handed p d => Json.mkObj [("k", "handed"), ("plugin", p), ("data", d)]
        | .unknownReceiver => Json.mkObj [("k", "unknownReceiver")]
        | .unknownPlugin t => Json.mkObj [("k", "unknownPlugin"), ("type", t)]
        | .undecodable => Json.mkObj [("k", "undecodable")]
        | .bothNil => Json.mkObj [("k", "bothNil")]
      (st, Json.mkObj [("outcome", oj), ("stored", stored)])
    | .ok "poll_init" =>
      ({ st with poll := { max := (j.getObjValAs? Nat "max").toOption.getD 0 } }, Json.mkObj [("ok", true)])
    | .ok "poll_connect" | .ok "poll_disconnect" | .ok "poll_shutdown" | .ok "poll_read" =>
      let op := (j.getObjValAs? String "op").toOption.getD ""
      let g := (j.getObjValAs? String "group").toOption.getD ""
      let i := (j.getObjValAs? String "id").toOption.getD ""
      let s := st.poll
      let pop : Poll.Op := match op with
        | "poll_connect" => .connect g i ((j.getObjValAs? Nat "cap").toOption.getD 0)
        | "poll_disconnect" => .disconnect ((j.getObjValAs? Nat "handle").toOption.getD 0) g i
        | "poll_read" => .read ((j.getObjValAs? Nat "handle").toOption.getD 0)
        | _ => .shutdown
      let s' := Poll.step s pop
      let newlyClosed := s'.closed.filter fun h => !s.closed.contains h
      ({ st with poll := s' }, Json.mkObj [("handle", toJson s.next), ("registered", toJson (s'.conns.any fun c => c.handle == s.next)),
        ("closed", toJson newlyClosed.reverse), ("len", toJson s'.conns.length)])
    | .ok "poll_send" =>
      let notify := (j.getObjValAs? Bool "notify").toOption.getD false
      let data := (j.getObjValAs? String "data").toOption.getD ""
      let body := (j.getObjValAs? String "body").toOption.getD ""
      let observed := (j.getObjValAs? Nat "observed").toOption
      let s := st.poll
      if s.down then (st, Json.mkObj [("ok", false), ("possible", toJson ["send queue closed"])]) else
      let n := match Poll.decodeData data with
        | .ok g _ => max 1 (s.conns.filter (·.group == g)).length
        | _ => 1
      let outcomes := (List.range n).map fun p => (p, Poll.processRaw s notify data body p)
      let name : Option Poll.Outcome → String
        | none => "badData"
        | some (.delivered h) => s!"delivered:{h}"
        | some .noConnection => "noConnection"
        | some .notifyWrongId => "notifyWrongId"
        | some .full => "full"
      let want (r : Poll.St × Option Poll.Outcome) : Bool :=
        match observed, r.2 with
        | some h, some (.delivered h') => h == h'
        | none, some (.delivered _) => false
        | none, _ => true
        | some _, _ => false
      match outcomes.find? fun pr => want pr.2 with
      | some (_, r) => ({ st with poll := r.1 }, Json.mkObj [("ok", true), ("outcome", name r.2)])
      | none => (st, Json.mkObj [("ok", false), ("possible", toJson (outcomes.map fun pr => name pr.2.2))])
    | .ok "poll_state" =>
      let s := st.poll
      (st, Json.mkObj [("len", toJson s.conns.length), ("down", toJson s.down),
        ("conns", Json.arr (s.conns.map fun c => Json.mkObj [("handle", toJson c.handle), ("group", c.group), ("id", c.id), ("buf", toJson c.buf)]).toArray),
        ("closed", toJson (s.closed.mergeSort (· ≤ ·))), ("log", toJson s.log)])
    | .ok op => (st, Json.mkObj [("fatal", s!"unknown op {op}")])

partial def loop (h : IO.FS.Stream) (out : IO.FS.Stream) (st : DriverState) : IO Unit := do
  let line ← h.getLine
  if line.isEmpty then return ()
  let (st', j) := handleLine st line
  out.putStrLn j.compress
  out.flush
  loop h out st'

end Resonate

def main : IO Unit := do
  Resonate.loop (← IO.getStdin) (← IO.getStdout) {}
