/-
  Driver/Codec.lean — JSON codecs for the line protocol between the Go correspondence harnesses
  and the model driver.  Maps travel as key-sorted arrays of [k, v] pairs; NULL / nil as `null`.
-/
import Lean.Data.Json
import Resonate.Model.Store
import Resonate.Model.System
import Resonate.Model.Env
open Lean
namespace Resonate

deriving instance ToJson, FromJson for Mesg
deriving instance ToJson, FromJson for Value
deriving instance ToJson, FromJson for PromiseRow
deriving instance ToJson, FromJson for CallbackRow
deriving instance ToJson, FromJson for ScheduleRow
deriving instance ToJson, FromJson for LockRow
deriving instance ToJson, FromJson for TaskRow
deriving instance ToJson, FromJson for Db
deriving instance ToJson, FromJson for ReadPromiseCmd
deriving instance ToJson, FromJson for ReadPromisesCmd
deriving instance ToJson, FromJson for SearchPromisesCmd
deriving instance ToJson, FromJson for CreatePromiseCmd
deriving instance ToJson, FromJson for UpdatePromiseCmd
deriving instance ToJson, FromJson for CreateCallbackCmd
deriving instance ToJson, FromJson for DeleteCallbacksCmd
deriving instance ToJson, FromJson for ReadScheduleCmd
deriving instance ToJson, FromJson for ReadSchedulesCmd
deriving instance ToJson, FromJson for SearchSchedulesCmd
deriving instance ToJson, FromJson for CreateScheduleCmd
deriving instance ToJson, FromJson for UpdateScheduleCmd
deriving instance ToJson, FromJson for DeleteScheduleCmd
deriving instance ToJson, FromJson for ReadTaskCmd
deriving instance ToJson, FromJson for ReadTasksCmd
deriving instance ToJson, FromJson for ReadEnqueueableTasksCmd
deriving instance ToJson, FromJson for CreateTaskCmd
deriving instance ToJson, FromJson for CreateTasksCmd
deriving instance ToJson, FromJson for CompleteTasksCmd
deriving instance ToJson, FromJson for UpdateTaskCmd
deriving instance ToJson, FromJson for HeartbeatTasksCmd
deriving instance ToJson, FromJson for CreatePromiseAndTaskCmd
deriving instance ToJson, FromJson for ReadLockCmd
deriving instance ToJson, FromJson for AcquireLockCmd
deriving instance ToJson, FromJson for ReleaseLockCmd
deriving instance ToJson, FromJson for HeartbeatLocksCmd
deriving instance ToJson, FromJson for TimeoutLocksCmd

def cmdFromJson (j : Json) : Except String Cmd := do
  let k ← j.getObjValAs? String "k"
  let c ← j.getObjVal? "c"
  match k with
  | "ReadPromise" => return .readPromise (← fromJson? c)
  | "ReadPromises" => return .readPromises (← fromJson? c)
  | "SearchPromises" => return .searchPromises (← fromJson? c)
  | "CreatePromise" => return .createPromise (← fromJson? c)
  | "UpdatePromise" => return .updatePromise (← fromJson? c)
  | "CreateCallback" => return .createCallback (← fromJson? c)
  | "DeleteCallbacks" => return .deleteCallbacks (← fromJson? c)
  | "ReadSchedule" => return .readSchedule (← fromJson? c)
  | "ReadSchedules" => return .readSchedules (← fromJson? c)
  | "SearchSchedules" => return .searchSchedules (← fromJson? c)
  | "CreateSchedule" => return .createSchedule (← fromJson? c)
  | "UpdateSchedule" => return .updateSchedule (← fromJson? c)
  | "DeleteSchedule" => return .deleteSchedule (← fromJson? c)
  | "ReadTask" => return .readTask (← fromJson? c)
  | "ReadEnqueueableTasks" => return .readEnqueueableTasks (← fromJson? c)
  | "ReadTasks" => return .readTasks (← fromJson? c)
  | "CreateTask" => return .createTask (← fromJson? c)
  | "CreateTasks" => return .createTasks (← fromJson? c)
  | "CompleteTasks" => return .completeTasks (← fromJson? c)
  | "UpdateTask" => return .updateTask (← fromJson? c)
  | "HeartbeatTasks" => return .heartbeatTasks (← fromJson? c)
  | "CreatePromiseAndTask" => return .createPromiseAndTask (← fromJson? c)
  | "ReadLock" => return .readLock (← fromJson? c)
  | "AcquireLock" => return .acquireLock (← fromJson? c)
  | "ReleaseLock" => return .releaseLock (← fromJson? c)
  | "HeartbeatLocks" => return .heartbeatLocks (← fromJson? c)
  | "TimeoutLocks" => return .timeoutLocks (← fromJson? c)
  | _ => throw s!"unknown command kind {k}"

def cmdToJson : Cmd → Json
  | .readPromise c => Json.mkObj [("k", "ReadPromise"), ("c", toJson c)]
  | .readPromises c => Json.mkObj [("k", "ReadPromises"), ("c", toJson c)]
  | .searchPromises c => Json.mkObj [("k", "SearchPromises"), ("c", toJson c)]
  | .createPromise c => Json.mkObj [("k", "CreatePromise"), ("c", toJson c)]
  | .updatePromise c => Json.mkObj [("k", "UpdatePromise"), ("c", toJson c)]
  | .createCallback c => Json.mkObj [("k", "CreateCallback"), ("c", toJson c)]
  | .deleteCallbacks c => Json.mkObj [("k", "DeleteCallbacks"), ("c", toJson c)]
  | .readSchedule c => Json.mkObj [("k", "ReadSchedule"), ("c", toJson c)]
  | .readSchedules c => Json.mkObj [("k", "ReadSchedules"), ("c", toJson c)]
  | .searchSchedules c => Json.mkObj [("k", "SearchSchedules"), ("c", toJson c)]
  | .createSchedule c => Json.mkObj [("k", "CreateSchedule"), ("c", toJson c)]
  | .updateSchedule c => Json.mkObj [("k", "UpdateSchedule"), ("c", toJson c)]
  | .deleteSchedule c => Json.mkObj [("k", "DeleteSchedule"), ("c", toJson c)]
  | .readTask c => Json.mkObj [("k", "ReadTask"), ("c", toJson c)]
  | .readEnqueueableTasks c => Json.mkObj [("k", "ReadEnqueueableTasks"), ("c", toJson c)]
  | .readTasks c => Json.mkObj [("k", "ReadTasks"), ("c", toJson c)]
  | .createTask c => Json.mkObj [("k", "CreateTask"), ("c", toJson c)]
  | .createTasks c => Json.mkObj [("k", "CreateTasks"), ("c", toJson c)]
  | .completeTasks c => Json.mkObj [("k", "CompleteTasks"), ("c", toJson c)]
  | .updateTask c => Json.mkObj [("k", "UpdateTask"), ("c", toJson c)]
  | .heartbeatTasks c => Json.mkObj [("k", "HeartbeatTasks"), ("c", toJson c)]
  | .createPromiseAndTask c => Json.mkObj [("k", "CreatePromiseAndTask"), ("c", toJson c)]
  | .readLock c => Json.mkObj [("k", "ReadLock"), ("c", toJson c)]
  | .acquireLock c => Json.mkObj [("k", "AcquireLock"), ("c", toJson c)]
  | .releaseLock c => Json.mkObj [("k", "ReleaseLock"), ("c", toJson c)]
  | .heartbeatLocks c => Json.mkObj [("k", "HeartbeatLocks"), ("c", toJson c)]
  | .timeoutLocks c => Json.mkObj [("k", "TimeoutLocks"), ("c", toJson c)]

def resToJson : Res → Json
  | .promises rows => Json.mkObj [("t", "promises"), ("rows", toJson rows)]
  | .schedules rows => Json.mkObj [("t", "schedules"), ("rows", toJson rows)]
  | .tasks rows => Json.mkObj [("t", "tasks"), ("rows", toJson rows)]
  | .locks rows => Json.mkObj [("t", "locks"), ("rows", toJson rows)]
  | .rows n => Json.mkObj [("t", "rows"), ("n", toJson n)]
  | .rows2 p t => Json.mkObj [("t", "rows2"), ("p", toJson p), ("n", toJson t)]

def storeErrToString : StoreErr → String
  | .uniqueTaskId _ => "unique-task-id"
  | .uniqueCallbackId _ => "unique-callback-id"
  | .badJsonPath _ => "bad-json-path"
  | .assertion w => "assertion: " ++ w
  | .injected => "injected"

end Resonate

/-! ### system-level codecs (sysdiff) -/
namespace Resonate
open Lean

deriving instance ToJson, FromJson for Promise
deriving instance ToJson, FromJson for Task
deriving instance ToJson, FromJson for Callback
deriving instance ToJson, FromJson for Schedule
deriving instance ToJson, FromJson for Lock
deriving instance ToJson, FromJson for CreatePromiseReq
deriving instance ToJson, FromJson for CreateTaskReq
deriving instance ToJson, FromJson for CompletePromiseReq
deriving instance ToJson, FromJson for SearchPromisesReq
deriving instance ToJson, FromJson for SearchSchedulesReq
deriving instance ToJson, FromJson for CreateCallbackReq
deriving instance ToJson, FromJson for CreateSubscriptionReq
deriving instance ToJson, FromJson for CreateScheduleReq
deriving instance ToJson, FromJson for AcquireLockReq
deriving instance ToJson, FromJson for ClaimTaskReq
deriving instance ToJson, FromJson for Config
deriving instance ToJson, FromJson for SenderReq
deriving instance ToJson, FromJson for SubId

def reqFromJson (j : Json) : Except String Req := do
  let k ← j.getObjValAs? String "k"
  let c ← j.getObjVal? "c"
  match k with
  | "ReadPromise" => return .readPromise (← c.getObjValAs? String "id")
  | "SearchPromises" => return .searchPromises (← fromJson? c)
  | "CreatePromise" => return .createPromise (← fromJson? c)
  | "CreatePromiseAndTask" => return .createPromiseAndTask (← c.getObjValAs? CreatePromiseReq "promise") (← c.getObjValAs? CreateTaskReq "task")
  | "CompletePromise" => return .completePromise (← fromJson? c)
  | "CreateCallback" => return .createCallback (← fromJson? c)
  | "CreateSubscription" => return .createSubscription (← fromJson? c)
  | "ReadSchedule" => return .readSchedule (← c.getObjValAs? String "id")
  | "SearchSchedules" => return .searchSchedules (← fromJson? c)
  | "CreateSchedule" => return .createSchedule (← fromJson? c)
  | "DeleteSchedule" => return .deleteSchedule (← c.getObjValAs? String "id")
  | "AcquireLock" => return .acquireLock (← fromJson? c)
  | "ReleaseLock" => return .releaseLock (← c.getObjValAs? String "resourceId") (← c.getObjValAs? String "executionId")
  | "HeartbeatLocks" => return .heartbeatLocks (← c.getObjValAs? String "processId")
  | "ClaimTask" => return .claimTask (← fromJson? c)
  | "CompleteTask" => return .completeTask (← c.getObjValAs? String "id") (← c.getObjValAs? Int "counter")
  | "HeartbeatTasks" => return .heartbeatTasks (← c.getObjValAs? String "processId")
  | _ => throw s!"unknown request kind {k}"

def respToJson : Resp → Json
  | .promise s p => Json.mkObj [("k", "promise"), ("status", toJson s), ("promise", toJson p)]
  | .promiseTask s p t => Json.mkObj [("k", "promiseTask"), ("status", toJson s), ("promise", toJson p), ("task", toJson t)]
  | .searchPromises s ps c => Json.mkObj [("k", "searchPromises"), ("status", toJson s), ("promises", toJson ps), ("cursor", toJson c)]
  | .callback s p cb => Json.mkObj [("k", "callback"), ("status", toJson s), ("promise", toJson p), ("callback", toJson cb)]
  | .schedule s sc => Json.mkObj [("k", "schedule"), ("status", toJson s), ("schedule", toJson sc)]
  | .searchSchedules s ss c => Json.mkObj [("k", "searchSchedules"), ("status", toJson s), ("schedules", toJson ss), ("cursor", toJson c)]
  | .status s => Json.mkObj [("k", "status"), ("status", toJson s)]
  | .lock s l => Json.mkObj [("k", "lock"), ("status", toJson s), ("lock", toJson l)]
  | .count s n => Json.mkObj [("k", "count"), ("status", toJson s), ("n", toJson n)]
  | .claim s t rp lp rh lh => Json.mkObj [("k", "claim"), ("status", toJson s), ("task", toJson t), ("rootPromise", toJson rp),
      ("leafPromise", toJson lp), ("rootPromiseHref", toJson rh), ("leafPromiseHref", toJson lh)]
  | .task s t => Json.mkObj [("k", "task"), ("status", toJson s), ("task", toJson t)]
  | .error c => Json.mkObj [("k", "error"), ("status", toJson c)]

def submToJson : Subm → Json
  | .store tx => Json.mkObj [("k", "store"), ("tx", toJson (tx.map cmdToJson))]
  | .router p => Json.mkObj [("k", "router"), ("promise", toJson p)]
  | .sender s => Json.mkObj [("k", "sender"), ("sender", toJson s)]

def cplFromJson (j : Json) : Except String Cpl := do
  let k ← j.getObjValAs? String "k"
  match k with
  | "router" => return .router (← j.getObjValAs? Bool "matched") (← j.getObjValAs? String "recv")
  | "sender" => return .sender (← j.getObjValAs? Bool "success")
  | "err" => return .err
  | _ => throw s!"unknown completion kind {k}"

def eventToJson : Event → Json
  | .dispatch id s => Json.mkObj [("e", "dispatch"), ("tid", id.tid), ("seq", toJson id.seq), ("sub", submToJson s)]
  | .respond tid r => Json.mkObj [("e", "respond"), ("tid", tid), ("resp", respToJson r)]
  | .bgDone tid => Json.mkObj [("e", "bgDone"), ("tid", tid)]
  | .panic tid site => Json.mkObj [("e", "panic"), ("tid", tid), ("site", site)]

def failModeFromString : String → FailMode
  | "before" => .before
  | "after" => .after
  | _ => .ok

end Resonate
