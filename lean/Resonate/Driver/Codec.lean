/-
  Driver/Codec.lean — JSON codecs for the line protocol between the Go correspondence harnesses
  and the model driver.  Maps travel as key-sorted arrays of [k, v] pairs; NULL / nil as `null`.
-/
import Lean.Data.Json
import Resonate.Model.Store
open Lean
namespace Resonate

deriving instance ToJson, FromJson for Mesg
deriving instance ToJson, FromJson for Value
deriving instance ToJson, FromJson for PromiseRow
deriving instance ToJson, FromJson for CallbackRow
deriving instance ToJson, FromJson for ScheduleRow
deriving instance ToJson, FromJson for LockRow
deriving instance ToJson, FromJson for TaskRow
deriving instance ToJson, FromJson for Db
deriving instance ToJson, FromJson for ReadPromiseCmd
deriving instance ToJson, FromJson for ReadPromisesCmd
deriving instance ToJson, FromJson for SearchPromisesCmd
deriving instance ToJson, FromJson for CreatePromiseCmd
deriving instance ToJson, FromJson for UpdatePromiseCmd
deriving instance ToJson, FromJson for CreateCallbackCmd
deriving instance ToJson, FromJson for DeleteCallbacksCmd
deriving instance ToJson, FromJson for ReadScheduleCmd
deriving instance ToJson, FromJson for ReadSchedulesCmd
deriving instance ToJson, FromJson for SearchSchedulesCmd
deriving instance ToJson, FromJson for CreateScheduleCmd
deriving instance ToJson, FromJson for UpdateScheduleCmd
deriving instance ToJson, FromJson for DeleteScheduleCmd
deriving instance ToJson, FromJson for ReadTaskCmd
deriving instance ToJson, FromJson for ReadTasksCmd
deriving instance ToJson, FromJson for ReadEnqueueableTasksCmd
deriving instance ToJson, FromJson for CreateTaskCmd
deriving instance ToJson, FromJson for CreateTasksCmd
deriving instance ToJson, FromJson for CompleteTasksCmd
deriving instance ToJson, FromJson for UpdateTaskCmd
deriving instance ToJson, FromJson for HeartbeatTasksCmd
deriving instance ToJson, FromJson for CreatePromiseAndTaskCmd
deriving instance ToJson, FromJson for ReadLockCmd
deriving instance ToJson, FromJson for AcquireLockCmd
deriving instance ToJson, FromJson for ReleaseLockCmd
deriving instance ToJson, FromJson for HeartbeatLocksCmd
deriving instance ToJson, FromJson for TimeoutLocksCmd

def cmdFromJson (j : Json) : Except String Cmd := do
  let k ← j.getObjValAs? String "k"
  let c ← j.getObjVal? "c"
  match k with
  | "ReadPromise" => return .readPromise (← fromJson? c)
  | "ReadPromises" => return .readPromises (← fromJson? c)
  | "SearchPromises" => return .searchPromises (← fromJson? c)
  | "CreatePromise" => return .createPromise (← fromJson? c)
  | "UpdatePromise" => return .updatePromise (← fromJson? c)
  | "CreateCallback" => return .createCallback (← fromJson? c)
  | "DeleteCallbacks" => return .deleteCallbacks (← fromJson? c)
  | "ReadSchedule" => return .readSchedule (← fromJson? c)
  | "ReadSchedules" => return .readSchedules (← fromJson? c)
  | "SearchSchedules" => return .searchSchedules (← fromJson? c)
  | "CreateSchedule" => return .createSchedule (← fromJson? c)
  | "UpdateSchedule" => return .updateSchedule (← fromJson? c)
  | "DeleteSchedule" => return .deleteSchedule (← fromJson? c)
  | "ReadTask" => return .readTask (← fromJson? c)
  | "ReadEnqueueableTasks" => return .readEnqueueableTasks (← fromJson? c)
  | "ReadTasks" => return .readTasks (← fromJson? c)
  | "CreateTask" => return .createTask (← fromJson? c)
  | "CreateTasks" => return .createTasks (← fromJson? c)
  | "CompleteTasks" => return .completeTasks (← fromJson? c)
  | "UpdateTask" => return .updateTask (← fromJson? c)
  | "HeartbeatTasks" => return .heartbeatTasks (← fromJson? c)
  | "CreatePromiseAndTask" => return .createPromiseAndTask (← fromJson? c)
  | "ReadLock" => return .readLock (← fromJson? c)
  | "AcquireLock" => return .acquireLock (← fromJson? c)
  | "ReleaseLock" => return .releaseLock (← fromJson? c)
  | "HeartbeatLocks" => return .heartbeatLocks (← fromJson? c)
  | "TimeoutLocks" => return .timeoutLocks (← fromJson? c)
  | _ => throw s!"unknown command kind {k}"

def cmdToJson : Cmd → Json
  | .readPromise c => Json.mkObj [("k", "ReadPromise"), ("c", toJson c)]
  | .readPromises c => Json.mkObj [("k", "ReadPromises"), ("c", toJson c)]
  | .searchPromises c => Json.mkObj [("k", "SearchPromises"), ("c", toJson c)]
  | .createPromise c => Json.mkObj [("k", "CreatePromise"), ("c", toJson c)]
  | .updatePromise c => Json.mkObj [("k", "UpdatePromise"), ("c", toJson c)]
  | .createCallback c => Json.mkObj [("k", "CreateCallback"), ("c", toJson c)]
  | .deleteCallbacks c => Json.mkObj [("k", "DeleteCallbacks"), ("c", toJson c)]
  | .readSchedule c => Json.mkObj [("k", "ReadSchedule"), ("c", toJson c)]
  | .readSchedules c => Json.mkObj [("k", "ReadSchedules"), ("c", toJson c)]
  | .searchSchedules c => Json.mkObj [("k", "SearchSchedules"), ("c", toJson c)]
  | .createSchedule c => Json.mkObj [("k", "CreateSchedule"), ("c", toJson c)]
  | .updateSchedule c => Json.mkObj [("k", "UpdateSchedule"), ("c", toJson c)]
  | .deleteSchedule c => Json.mkObj [("k", "DeleteSchedule"), ("c", toJson c)]
  | .readTask c => Json.mkObj [("k", "ReadTask"), ("c", toJson c)]
  | .readEnqueueableTasks c => Json.mkObj [("k", "ReadEnqueueableTasks"), ("c", toJson c)]
  | .readTasks c => Json.mkObj [("k", "ReadTasks"), ("c", toJson c)]
  | .createTask c => Json.mkObj [("k", "CreateTask"), ("c", toJson c)]
  | .createTasks c => Json.mkObj [("k", "CreateTasks"), ("c", toJson c)]
  | .completeTasks c => Json.mkObj [("k", "CompleteTasks"), ("c", toJson c)]
  | .updateTask c => Json.mkObj [("k", "UpdateTask"), ("c", toJson c)]
  | .heartbeatTasks c => Json.mkObj [("k", "HeartbeatTasks"), ("c", toJson c)]
  | .createPromiseAndTask c => Json.mkObj [("k", "CreatePromiseAndTask"), ("c", toJson c)]
  | .readLock c => Json.mkObj [("k", "ReadLock"), ("c", toJson c)]
  | .acquireLock c => Json.mkObj [("k", "AcquireLock"), ("c", toJson c)]
  | .releaseLock c => Json.mkObj [("k", "ReleaseLock"), ("c", toJson c)]
  | .heartbeatLocks c => Json.mkObj [("k", "HeartbeatLocks"), ("c", toJson c)]
  | .timeoutLocks c => Json.mkObj [("k", "TimeoutLocks"), ("c", toJson c)]

def resToJson : Res → Json
  | .promises rows => Json.mkObj [("t", "promises"), ("rows", toJson rows)]
  | .schedules rows => Json.mkObj [("t", "schedules"), ("rows", toJson rows)]
  | .tasks rows => Json.mkObj [("t", "tasks"), ("rows", toJson rows)]
  | .locks rows => Json.mkObj [("t", "locks"), ("rows", toJson rows)]
  | .rows n => Json.mkObj [("t", "rows"), ("n", toJson n)]
  | .rows2 p t => Json.mkObj [("t", "rows2"), ("p", toJson p), ("n", toJson t)]

def storeErrToString : StoreErr → String
  | .uniqueTaskId _ => "unique-task-id"
  | .uniqueCallbackId _ => "unique-callback-id"
  | .badJsonPath _ => "bad-json-path"
  | .assertion w => "assertion: " ++ w
  | .injected => "injected"

end Resonate
