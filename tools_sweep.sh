#!/bin/bash
# usage: tools_sweep.sh <binary> <seeds...> -- <sysdiff args>   (runs in parallel, prints one line per seed)
bin=$1; shift; seeds=(); while [ "$1" != "--" ]; do seeds+=($1); shift; done; shift
mkdir -p /tmp/sd
for seed in "${seeds[@]}"; do ( $bin -driver /verif/lean/.lake/build/bin/driver -work /tmp/sd/w$seed -seed $seed -out /tmp/sd/o$seed.json "$@" >/dev/null 2>&1 ) & done
wait
for seed in "${seeds[@]}"; do python3 -c "
import json,sys
try:
  d=json.load(open('/tmp/sd/o$seed.json'))
  print($seed, d['disagreements'], d.get('divergence'), str(d.get('diff'))[:400], d.get('cases'), {k:v for k,v in d['counts'].items() if 'lease' in k or 'lock_' in k})
except Exception as e: print($seed,'no summary',e)
"; done
rm -rf /tmp/sd
